package main

// C12 — symbolic mini-executor: tables built at start-up, mutable maps, byte-slice builders.
//
//   - A package-level variable that is written only inside init() functions of its package (make, stores,
//     delete, read-modify-write of an entry, a loop over a literal) and only read everywhere else is a constant
//     table just like one initialised with a composite literal: its value is obtained by executing the init()
//     functions (and the declaration's initialiser) once, concretely. Any unknown on the way (a branch on a
//     value that is not known, a store under an unknown key, an unsupported statement) makes the table unknown
//     — it is never guessed.
//   - Maps made with make() or a literal inside such an evaluation are *c12MutMap values with reference
//     semantics; the finished table is frozen to a c12Map, the value the executor's lookups understand.
//   - []byte values are modelled as strings (c12Str): make([]byte, 0, n), append(b, s...), append(b, 'x'),
//     strconv.AppendInt(b, i, 10), fmt.Appendf(b, …) build the same symbolic string as the Sprintf /
//     strings.Builder forms they replace.

import (
	"fmt"
	"go/ast"
	"go/token"
	"go/types"
	"os"
	"sort"

	"golang.org/x/tools/go/packages"
)

// c12MutMap is a map under construction (reference semantics, insertion order).
type c12MutMap struct {
	Typ        types.Type
	Keys, Vals []c12Val
	// Poisoned: an entry was stored or deleted under a key that could not be compared with the keys present;
	// nothing is known about the contents any more
	Poisoned bool
}

func (m *c12MutMap) find(k c12Val) (idx int, known bool) {
	for i, mk := range m.Keys {
		eq, kn := c12Eq(mk, k)
		if !kn {
			eq, kn = c12Eq(k, mk)
		}
		if !kn {
			return -1, false
		}
		if eq {
			return i, true
		}
	}
	return -1, true
}

func (m *c12MutMap) store(k, v c12Val) {
	if !c12Concrete(k) {
		m.Poisoned = true
		return
	}
	i, known := m.find(k)
	switch {
	case !known:
		m.Poisoned = true
	case i >= 0:
		m.Vals[i] = v
	default:
		m.Keys = append(m.Keys, k)
		m.Vals = append(m.Vals, v)
	}
}

func (m *c12MutMap) remove(k c12Val) {
	if !c12Concrete(k) {
		m.Poisoned = true
		return
	}
	i, known := m.find(k)
	switch {
	case !known:
		m.Poisoned = true
	case i >= 0:
		m.Keys = append(append([]c12Val{}, m.Keys[:i]...), m.Keys[i+1:]...)
		m.Vals = append(append([]c12Val{}, m.Vals[:i]...), m.Vals[i+1:]...)
	}
}

func (m *c12MutMap) frozen() c12Map {
	return c12Map{Typ: m.Typ, Keys: append([]c12Val{}, m.Keys...), Vals: append([]c12Val{}, m.Vals...)}
}

// c12Concrete: a value usable as a map key (fully known scalar).
func c12Concrete(v c12Val) bool {
	switch t := v.(type) {
	case c12Int, c12Bool:
		return true
	case c12Str:
		_, ok := t.literal()
		return ok
	case c12Conv:
		return c12Concrete(t.X)
	}
	return false
}

// c12Clone copies a struct value (Go copies structs on assignment, map load and map store); other values are
// immutable or have reference semantics in Go as well.
func c12Clone(v c12Val) c12Val {
	s, ok := v.(*c12Struct)
	if !ok || s == nil {
		return v
	}
	out := &c12Struct{Typ: s.Typ, Fields: map[string]c12Val{}}
	for k, f := range s.Fields {
		out.Fields[k] = c12Clone(f)
	}
	return out
}

// c12Freeze turns the maps under construction inside v into read-only tables.
func c12Freeze(v c12Val, depth int) (c12Val, bool) {
	if depth > 6 {
		return nil, false
	}
	switch t := v.(type) {
	case *c12MutMap:
		if t.Poisoned {
			return nil, false
		}
		m := t.frozen()
		for i := range m.Vals {
			f, ok := c12Freeze(m.Vals[i], depth+1)
			if !ok {
				return nil, false
			}
			m.Vals[i] = f
		}
		return m, true
	case c12Slice:
		out := c12Slice{Elems: make([]c12Val, len(t.Elems))}
		for i := range t.Elems {
			f, ok := c12Freeze(t.Elems[i], depth+1)
			if !ok {
				return nil, false
			}
			out.Elems[i] = f
		}
		return out, true
	case *c12Struct:
		out := &c12Struct{Typ: t.Typ, Fields: map[string]c12Val{}}
		for k, f := range t.Fields {
			fv, ok := c12Freeze(f, depth+1)
			if !ok {
				return nil, false
			}
			out.Fields[k] = fv
		}
		return out, true
	}
	return v, true
}

// c12Thaw: a map literal evaluated while a table is being built can be stored into afterwards.
func c12Thaw(v c12Val) c12Val {
	if m, ok := v.(c12Map); ok {
		return &c12MutMap{Typ: m.Typ, Keys: append([]c12Val{}, m.Keys...), Vals: append([]c12Val{}, m.Vals...)}
	}
	return v
}

func c12IsByteSlice(t types.Type) bool {
	if t == nil {
		return false
	}
	s, ok := t.Underlying().(*types.Slice)
	if !ok {
		return false
	}
	b, ok := s.Elem().Underlying().(*types.Basic)
	return ok && b.Kind() == types.Uint8
}

func c12IsIntSym(v c12Val) bool {
	switch t := v.(type) {
	case c12Sym:
		return true
	case c12Conv:
		return c12IsIntSym(t.X)
	case c12Load, c12App:
		return true
	}
	return false
}

// bytesOf: the string model of a []byte (or string) value.
func c12BytesOf(v c12Val) (c12Str, bool) {
	switch t := v.(type) {
	case c12Str:
		return t, true
	case c12Nil:
		return c12Lit(""), true
	case c12Conv:
		return c12BytesOf(t.X)
	case c12Slice:
		s := c12ToStr(t)
		if _, ok := s.literal(); ok {
			return s, true
		}
	}
	return c12Str{}, false
}

// appendBytes: append on a byte slice modelled as a string.
func (ex *c12Exec) appendBytes(base c12Val, rest []c12Val, ellipsis bool) (c12Val, bool) {
	out, ok := c12BytesOf(base)
	if !ok {
		return nil, false
	}
	if ellipsis {
		if len(rest) != 1 {
			return nil, false
		}
		s, ok := c12BytesOf(rest[0])
		if !ok {
			return nil, false
		}
		return out.concat(s), true
	}
	for _, a := range rest {
		i, ok := a.(c12Int)
		if !ok {
			return nil, false // an unknown byte is not a decimal hole
		}
		out = out.concat(c12Lit(string([]byte{byte(i.V)})))
	}
	return out, true
}

// makeVal: make([]byte, 0[, n]) is the empty byte string, make([]T, 0[, n]) the empty slice, make([]T, k) k zero
// values; make(map[K]V[, n]) a fresh map (only while a start-up table is being built: elsewhere maps are state
// the executor does not track).
func (ex *c12Exec) makeVal(fr *c12Frame, call *ast.CallExpr) (c12Val, bool) {
	if len(call.Args) == 0 {
		return nil, false
	}
	t := fr.info.TypeOf(call.Args[0])
	if t == nil {
		return nil, false
	}
	switch u := t.Underlying().(type) {
	case *types.Map:
		if ex.globals != nil {
			return &c12MutMap{Typ: t}, true
		}
	case *types.Slice:
		if len(call.Args) < 2 {
			return nil, false
		}
		n, ok := ex.rv(ex.expr(fr, call.Args[1])).(c12Int)
		if !ok || n.V < 0 || n.V > 4096 {
			return nil, false
		}
		if c12IsByteSlice(t) {
			if n.V == 0 {
				return c12Lit(""), true
			}
			return nil, false
		}
		out := c12Slice{Elems: []c12Val{}}
		for i := int64(0); i < n.V; i++ {
			out.Elems = append(out.Elems, ex.zero(u.Elem()))
		}
		return out, true
	}
	return nil, false
}

// strNative: the strconv / fmt functions that render an integer or append to a byte slice.
func (ex *c12Exec) strNative(name string, args []c12Val) (c12Val, bool) {
	dec := func(v c12Val, base c12Val) (c12Str, bool) {
		if b, ok := base.(c12Int); !ok || b.V != 10 {
			return c12Str{}, false
		}
		if c, ok := v.(c12Conv); ok {
			v = c.X
		}
		if i, ok := v.(c12Int); ok {
			return c12Lit(fmt.Sprint(i.V)), true
		}
		if c12IsIntSym(v) {
			return c12Str{Parts: []c12Part{{Sym: v}}}, true
		}
		return c12Str{}, false
	}
	switch name {
	case "strconv.AppendInt", "strconv.AppendUint":
		if len(args) == 3 {
			dst, ok1 := c12BytesOf(args[0])
			d, ok2 := dec(args[1], args[2])
			if ok1 && ok2 {
				return dst.concat(d), true
			}
		}
	case "strconv.FormatInt", "strconv.FormatUint":
		if len(args) == 2 {
			if d, ok := dec(args[0], args[1]); ok {
				return d, true
			}
		}
	case "fmt.Appendf":
		if len(args) >= 2 {
			if dst, ok := c12BytesOf(args[0]); ok {
				return dst.concat(ex.sprintf(args[1], args[2:])), true
			}
		}
	case "fmt.Append", "fmt.Sprint":
		// operands that are all strings are concatenated without separators
		var out c12Str
		rest := args
		if name == "fmt.Append" {
			if len(args) == 0 {
				return nil, false
			}
			dst, ok := c12BytesOf(args[0])
			if !ok {
				return nil, false
			}
			out, rest = dst, args[1:]
		}
		for _, a := range rest {
			s, ok := a.(c12Str)
			if !ok {
				return nil, false
			}
			out = out.concat(s)
		}
		return out, true
	}
	return nil, false
}

// ---------------------------------------------------------------- tables built by init()

type c12InitRes struct {
	val  c12Val
	ok   bool
	busy bool
}

var c12InitTables = map[*types.Var]*c12InitRes{}

// c12LvalueRoot walks up from an identifier through the selector / index / paren / star chain it is the root of
// and returns the outermost expression of that chain and its parent.
func c12LvalueChain(parents map[ast.Node]ast.Node, id ast.Node) (top ast.Node, par ast.Node) {
	top = id
	for {
		par = parents[top]
		switch p := par.(type) {
		case *ast.ParenExpr:
			top = p
			continue
		case *ast.SelectorExpr:
			if p.X == top {
				top = p
				continue
			}
		case *ast.IndexExpr:
			if p.X == top {
				top = p
				continue
			}
		case *ast.StarExpr:
			top = p
			continue
		}
		return top, par
	}
}

// c12ReadOnlyUse: the use of a package-level variable rooted at id neither writes the variable (or a part of it)
// nor lets it (or an aliasing part of it) escape: T[k] / T[k].f read as a value that cannot alias, len(T), range T,
// `v, ok := T[k]`, an operand of an expression.
func c12ReadOnlyUse(info *types.Info, parents map[ast.Node]ast.Node, id *ast.Ident) bool {
	top, par := c12LvalueChain(parents, id)
	valueOK := func() bool {
		e, ok := top.(ast.Expr)
		if !ok {
			return false
		}
		t := info.TypeOf(e)
		if tup, isTuple := t.(*types.Tuple); isTuple && tup.Len() > 0 {
			t = tup.At(0).Type()
		}
		return c12ScalarOrStruct(t)
	}
	switch p := par.(type) {
	case *ast.AssignStmt:
		for _, l := range p.Lhs {
			if l == top {
				return false
			}
		}
		return valueOK()
	case *ast.IncDecStmt:
		return false
	case *ast.UnaryExpr:
		return p.Op != token.AND && valueOK()
	case *ast.RangeStmt:
		return p.X == top
	case *ast.SliceExpr:
		return p.X != top
	case *ast.CallExpr:
		if p.Fun == top {
			return false // a call through an element of the table or a method on it: not followed
		}
		if fid, ok := unparen(p.Fun).(*ast.Ident); ok {
			if _, isB := info.Uses[fid].(*types.Builtin); isB && (fid.Name == "len" || fid.Name == "cap") {
				return true
			}
		}
		return valueOK()
	}
	return valueOK()
}

// c12ScalarOrStruct: copying a value of this type cannot alias the original (no pointer, map, slice, chan, func).
func c12ScalarOrStruct(t types.Type) bool {
	if t == nil {
		return false
	}
	switch u := t.Underlying().(type) {
	case *types.Basic:
		return true
	case *types.Struct:
		for i := 0; i < u.NumFields(); i++ {
			if !c12ScalarOrStruct(u.Field(i).Type()) {
				return false
			}
		}
		return true
	case *types.Array:
		return c12ScalarOrStruct(u.Elem())
	}
	return false
}

// c12InitPkg: what the init() functions of a package write.
type c12InitPkg struct {
	inits    []*ast.FuncDecl                         // in the order the files are presented to the compiler
	writes   map[*ast.FuncDecl]map[types.Object]bool // package-level variables an init() assigns (or stores into)
	mentions map[*ast.FuncDecl]map[types.Object]bool
	declInit map[types.Object]ast.Expr
	badDecl  map[types.Object]bool // declared in a multi-value spec (`var a, b = f()`)
}

var c12InitPkgs = map[*packages.Package]*c12InitPkg{}

func (ex *c12Exec) initPkg(pk *packages.Package) *c12InitPkg {
	if ip, ok := c12InitPkgs[pk]; ok {
		return ip
	}
	info := pk.TypesInfo
	ip := &c12InitPkg{writes: map[*ast.FuncDecl]map[types.Object]bool{}, mentions: map[*ast.FuncDecl]map[types.Object]bool{}, declInit: map[types.Object]ast.Expr{}, badDecl: map[types.Object]bool{}}
	c12InitPkgs[pk] = ip
	files := append([]*ast.File{}, pk.Syntax...)
	sort.Slice(files, func(i, j int) bool {
		return ex.p.Fset.Position(files[i].Pos()).Filename < ex.p.Fset.Position(files[j].Pos()).Filename
	})
	for _, f := range files {
		for _, d := range f.Decls {
			switch t := d.(type) {
			case *ast.GenDecl:
				if t.Tok != token.VAR {
					continue
				}
				for _, sp := range t.Specs {
					vs := sp.(*ast.ValueSpec)
					for i, nm := range vs.Names {
						o := info.Defs[nm]
						if o == nil {
							continue
						}
						if len(vs.Values) == len(vs.Names) {
							ip.declInit[o] = vs.Values[i]
						} else if len(vs.Values) != 0 {
							ip.badDecl[o] = true
						}
					}
				}
			case *ast.FuncDecl:
				if t.Body == nil || t.Recv != nil || t.Name.Name != "init" {
					continue
				}
				ip.inits = append(ip.inits, t)
				w, m := map[types.Object]bool{}, map[types.Object]bool{}
				ip.writes[t], ip.mentions[t] = w, m
				note := func(e ast.Expr) {
					if o := rootObj(info, e); o != nil && c12IsPkgLevel(o) && o.Pkg() == pk.Types {
						w[o] = true
					}
				}
				ast.Inspect(t.Body, func(n ast.Node) bool {
					switch x := n.(type) {
					case *ast.Ident:
						if o := info.Uses[x]; o != nil && c12IsPkgLevel(o) && o.Pkg() == pk.Types {
							m[o] = true
						}
					case *ast.AssignStmt:
						for _, l := range x.Lhs {
							note(l)
						}
					case *ast.IncDecStmt:
						note(x.X)
					case *ast.UnaryExpr:
						if x.Op == token.AND {
							note(x.X)
						}
					case *ast.CallExpr:
						if id, ok := unparen(x.Fun).(*ast.Ident); ok && len(x.Args) > 0 {
							if _, isB := info.Uses[id].(*types.Builtin); isB && (id.Name == "delete" || id.Name == "copy" || id.Name == "clear") {
								note(x.Args[0])
							}
						}
					}
					return true
				})
			}
		}
	}
	return ip
}

// initGlobal: while a start-up table is built, the current value of a package-level variable that the init()
// functions write: its declared initialiser (or zero value) at first touch, then whatever was stored.
func (ex *c12Exec) initGlobal(o types.Object) (c12Val, bool) {
	if v, ok := ex.globals[o]; ok {
		return v, true
	}
	if ex.initInfo == nil || !ex.initInfo.written[o] {
		return nil, false
	}
	ip := ex.initInfo.ip
	if ip.badDecl[o] {
		ex.path.Unsupp = append(ex.path.Unsupp, "multi-value declaration of "+o.Name())
		return nil, false
	}
	fr := &c12Frame{pk: ex.entryPkg, info: ex.entryPkg.TypesInfo, env: map[types.Object]c12Val{}, fn: "var " + o.Name()}
	var v c12Val
	if e := ip.declInit[o]; e != nil {
		ex.globals[o] = c12Sym{Hole: -1, Desc: "initialisation cycle"}
		v = c12Thaw(ex.rv(ex.expr(fr, e)))
	} else {
		v = ex.zero(o.Type())
	}
	ex.globals[o] = v
	return v, true
}

type c12InitInfo struct {
	ip      *c12InitPkg
	written map[types.Object]bool
}

// initBuiltTable: the value of package-level variable v when v is built by the init() functions of its package
// and only read afterwards.
func (ex *c12Exec) initBuiltTable(v *types.Var) (c12Val, bool) {
	if r, ok := c12InitTables[v]; ok {
		if r.busy || !r.ok {
			return nil, false
		}
		// every user gets its own copy of the row structs
		f, _ := c12Freeze(r.val, 0)
		return f, true
	}
	res := &c12InitRes{busy: true}
	c12InitTables[v] = res
	defer func() { res.busy = false }()
	var pk *packages.Package
	for _, q := range ex.p.Pkgs {
		if q.Types == v.Pkg() {
			pk = q
		}
	}
	if pk == nil {
		return nil, false
	}
	info := pk.TypesInfo
	ip := ex.initPkg(pk)
	wanted := false
	for _, fd := range ip.inits {
		if ip.writes[fd][v] {
			wanted = true
		}
	}
	if !wanted || ip.badDecl[v] {
		return nil, false
	}
	// every use outside init() must leave the table as init() built it
	parents := ex.p.Parents(pk)
	usesOK := true
	for _, f := range pk.Syntax {
		for _, d := range f.Decls {
			if fd, ok := d.(*ast.FuncDecl); ok && fd.Recv == nil && fd.Name.Name == "init" {
				continue
			}
			ast.Inspect(d, func(n ast.Node) bool {
				if id, ok := n.(*ast.Ident); ok && info.Uses[id] == types.Object(v) && !c12ReadOnlyUse(info, parents, id) {
					usesOK = false
				}
				return usesOK
			})
		}
	}
	if !usesOK {
		return nil, false
	}
	// the init() functions to run: those that mention v, and those that write a variable one of the former reads
	run := map[*ast.FuncDecl]bool{}
	vars := map[types.Object]bool{v: true}
	for changed := true; changed; {
		changed = false
		for _, fd := range ip.inits {
			if run[fd] {
				continue
			}
			need := false
			for o := range vars {
				if ip.writes[fd][o] || (o == types.Object(v) && ip.mentions[fd][o]) {
					need = true
				}
			}
			if !need {
				continue
			}
			run[fd], changed = true, true
			for o := range ip.mentions[fd] {
				vars[o] = true
			}
		}
	}
	written := map[types.Object]bool{}
	for _, fd := range ip.inits {
		for o := range ip.writes[fd] {
			written[o] = true
		}
	}
	ex2 := &c12Exec{p: ex.p, entryPkg: pk, globals: map[types.Object]c12Val{}, initInfo: &c12InitInfo{ip: ip, written: written}}
	ex2.path = &c12Path{}
	ex2.store = map[string]c12Val{}
	ex2.memo = map[string]bool{}
	for _, fd := range ip.inits {
		if !run[fd] {
			continue
		}
		fr := &c12Frame{pk: pk, info: info, env: map[types.Object]c12Val{}, fn: "init (" + ex.p.Pos(fd.Pos()) + ")"}
		ex2.depth = 1
		if ctl := ex2.block(fr, fd.Body.List); ctl == c12Abort {
			return nil, false
		}
	}
	pth := ex2.path
	if ex2.nchoice > 0 || len(pth.Unsupp) > 0 || len(pth.Skipped) > 0 || len(pth.Panics) > 0 || len(pth.NoCase) > 0 {
		if os.Getenv("C12_DEBUG") != "" {
			fmt.Printf("DEBUG init table %s not evaluated: choices=%d unsupp=%v skipped=%v panics=%v nocase=%v\n", v.Name(), ex2.nchoice, pth.Unsupp, pth.Skipped, pth.Panics, pth.NoCase)
		}
		return nil, false
	}
	cur, ok := ex2.initGlobal(v)
	if !ok {
		return nil, false
	}
	val, ok := c12Freeze(cur, 0)
	if !ok {
		return nil, false
	}
	switch val.(type) {
	case c12Map, c12Slice, *c12Struct:
	default:
		return nil, false
	}
	res.val, res.ok = val, true
	out, _ := c12Freeze(val, 0)
	return out, true
}

func c12IsPkgLevel(o types.Object) bool {
	v, ok := o.(*types.Var)
	return ok && !v.IsField() && v.Pkg() != nil && v.Parent() == v.Pkg().Scope()
}

// keyedList: a slice or array literal with index keys (`[]T{1: a, 5: b}`), or an array literal shorter than its
// type: every element sits at its index, the gaps hold the zero value. ok=false for a plain positional slice literal
// (handled by the caller).
func (ex *c12Exec) keyedList(fr *c12Frame, t *ast.CompositeLit, typ types.Type) (c12Val, bool) {
	var elemT types.Type
	size := int64(-1)
	switch u := typ.Underlying().(type) {
	case *types.Slice:
		elemT = u.Elem()
	case *types.Array:
		elemT, size = u.Elem(), u.Len()
	}
	keyed := false
	for _, el := range t.Elts {
		if _, ok := el.(*ast.KeyValueExpr); ok {
			keyed = true
		}
	}
	if !keyed && (size < 0 || size == int64(len(t.Elts))) {
		return nil, false
	}
	if size > 4096 {
		return nil, false
	}
	vals := map[int64]c12Val{}
	next, max := int64(0), int64(-1)
	for _, el := range t.Elts {
		if kv, ok := el.(*ast.KeyValueExpr); ok {
			k, ok := constInt(fr.info, kv.Key)
			if !ok || k < 0 || k > 4096 {
				return nil, false
			}
			next, el = k, kv.Value
		}
		var v c12Val
		if cl, ok := el.(*ast.CompositeLit); ok && cl.Type == nil {
			v = ex.composite(fr, cl)
		} else {
			v = ex.rv(ex.expr(fr, el))
		}
		vals[next] = v
		if next > max {
			max = next
		}
		next++
	}
	if size < 0 {
		size = max + 1
	}
	out := c12Slice{Elems: make([]c12Val, size)}
	for i := int64(0); i < size; i++ {
		if v, ok := vals[i]; ok {
			out.Elems[i] = v
		} else {
			out.Elems[i] = ex.zero(elemT)
		}
	}
	return out, true
}
