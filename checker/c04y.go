package main

// C04.h — the state that decides WHETHER a mode is set or reset keeps its value for the whole session.
//
// C04.a pairs a setter with a restorer by their guards, C04.g pairs a reset on the exit path with the set that
// Resume runs: "the same guard" means "the same decision" only if whatever the guard reads has the same value at
// both moments. C04.d establishes that for the capability flags (Vaxis.caps.*). A guard may read other state of
// the Vaxis (an option such as disableMouse, the selected graphics protocol, a package-level variable), directly,
// through a local flag, or through a predicate method. For every such field F read by
//   - a guard of a restoring sequence emitted on the exit path (functions reachable from Suspend), or
//   - a guard of a session-mode setter emitted by the functions Resume runs (enterAltScreen, enableModes),
// the rule requires
//   (1) every function that writes F is a start-up function (New, sendQueries, applyQuirks), a part of one
//       (unexported, plain calls only), or dead, and
//   (2) in New no write of F (directly, or through a call that reaches a writer) is reachable after the call
//       of enableModes.
// Otherwise there is a capability set / configuration for which a mode is set under one value of F and the exit
// path (or the next Resume) decides under another: the mode stays set after Close/Suspend, or Resume
// re-establishes a different set of modes than start-up did.

import (
	"go/ast"
	"go/types"
	"sort"
	"strings"
)

func init() { registerExtra("C04", c04GuardStateStable) }

// c04PathsOverlap: one canonical path is the other or a part of it (Vaxis.caps / Vaxis.caps.sixels).
func c04PathsOverlap(a, b string) bool {
	if a == b {
		return true
	}
	if len(a) > len(b) {
		a, b = b, a
	}
	return strings.HasPrefix(b, a) && (b[len(a)] == '.' || b[len(a)] == '[')
}

// c04GuardReads adds to out the canonical paths of the fields (and "var:<name>" for package-level variables) that
// evaluating the boolean/tag expression e reads: field selections, single-definition locals followed to their
// definition, repository predicates followed into their bodies. Parameters and other locals contribute nothing.
func c04GuardReads(p *Program, info *types.Info, e ast.Node, depth int, out map[string]bool) {
	if e == nil || depth > 4 {
		return
	}
	seenLocal := map[types.Object]bool{}
	var visit func(n ast.Node) bool
	visit = func(n ast.Node) bool {
		switch t := n.(type) {
		case *ast.FuncLit:
			return false
		case *ast.SelectorExpr:
			if sel, ok := info.Selections[t]; ok && sel.Kind() == types.FieldVal {
				if cp := canonPath(info, t); cp != "" && cp != types.ExprString(t) {
					out[cp] = true
				} else if cp != "" {
					// not anchored at a repository struct: name the field by its owner type
					if fo := fieldOwner(info, t); fo != "" {
						out[fo] = true
					}
				}
				// the operand may itself be a local that stands for something (`caps := vx.caps`): canonPath has
				// resolved that; index expressions inside the chain are still visited
				ast.Inspect(t.X, func(m ast.Node) bool {
					if ix, ok := m.(*ast.IndexExpr); ok {
						ast.Inspect(ix.Index, visit)
					}
					if call, ok := m.(*ast.CallExpr); ok {
						ast.Inspect(call, visit)
						return false
					}
					return true
				})
				return false
			}
		case *ast.CallExpr:
			if fn := calleeOf(info, t); fn != nil {
				if fi := p.FuncOfObj(fn); fi != nil && fi.Decl.Body != nil {
					c04GuardReads(p, fi.Pkg.TypesInfo, fi.Decl.Body, depth+1, out)
				}
			}
			return true // receiver and arguments
		case *ast.Ident:
			v, ok := info.Uses[t].(*types.Var)
			if !ok || v.IsField() || v.Pkg() == nil {
				return true
			}
			if v.Parent() == v.Pkg().Scope() {
				out["var:"+v.Name()] = true
				return true
			}
			if seenLocal[v] {
				return true
			}
			seenLocal[v] = true
			if def := singleDefOf(info, v); def != nil {
				ast.Inspect(def, visit)
			} else if td, ok := tupleDefTables[info][v]; ok && td.call != nil {
				ast.Inspect(td.call, visit)
			}
		}
		return true
	}
	ast.Inspect(e, visit)
}

func c04GuardStateStable(c *Ctx) {
	c.Clauses = append(c.Clauses, "C04.h every field read by a guard of a restoring sequence on the exit path, or of a session-mode setter that Resume runs, is written only by the start-up phase and not after New has enabled the modes (the guard decides the same way when the mode is set, reset and set again)")
	c.expect("C04.h", 2)
	suspend := c.P.Func("vaxis.(*Vaxis).Suspend")
	resume := c.P.Func("vaxis.(*Vaxis).Resume")
	nw := c.P.Func("vaxis.New")
	if suspend == nil || resume == nil || nw == nil {
		c.undecided("C04.h", "vaxis.New/Suspend/Resume", 0, "New, Suspend or Resume not found")
		return
	}
	restoreFns := staticReach(c.P, suspend)
	resumeFns := staticReach(c.P, resume)
	ems := ExtractEmissions(c.P, c.P.FuncsIn("vaxis"), vaxisTerminalSink)
	isWriterFn := func(n string) bool { return strings.HasPrefix(n, "vaxis.(*writer).") }

	// field -> one guarded emission that reads it (for the report)
	type use struct {
		em   *Emission
		what string
	}
	reads := map[string]use{}
	for _, e := range ems {
		if !e.Resolved {
			continue
		}
		base := e.FnName
		if i := strings.Index(base, "$"); i >= 0 {
			base = base[:i]
		}
		if isWriterFn(base) {
			continue
		}
		what := ""
		for _, t := range e.Templates {
			for _, s := range parseSeqs(t) {
				ms := classifySeq(s)
				if ms == nil {
					continue
				}
				session := strings.HasPrefix(ms.class, "DECSET ") || ms.class == "kitty-keyboard" || ms.class == "keypad"
				switch {
				case restoreFns[base] && (!ms.set || ms.class == "cursor-style" || ms.class == "pointer-shape" || ms.class == "app-id"):
					what = "the restoring sequence of " + ms.class + " in " + e.FnName
				case resumeFns[base] && !restoreFns[base] && ms.set && session:
					what = "the setter of " + ms.class + " in " + e.FnName
				}
			}
		}
		if what == "" {
			continue
		}
		fields := map[string]bool{}
		for _, gd := range e.G.Guards(e.Loc) {
			c04GuardReads(c.P, e.G.Info, gd.Cond.Expr, 0, fields)
			if gd.Cond.Tag != nil {
				c04GuardReads(c.P, e.G.Info, gd.Cond.Tag, 0, fields)
			}
			for _, a := range gd.Cond.Alts {
				c04GuardReads(c.P, e.G.Info, a, 0, fields)
			}
		}
		for f := range fields {
			if _, ok := reads[f]; !ok {
				reads[f] = use{e, what}
			}
		}
	}
	var fields []string
	for f := range reads {
		// the capability flags are the subject of C04.d
		if c04PathsOverlap(f, "Vaxis.caps") {
			continue
		}
		// a valid once-guard of the exit sequence decides whether the sequence runs at all, not how a mode is
		// paired (C04.b / c04once.go judge its writers, C04.m the histories)
		if once := c04OnceGuard(c); once != nil && once.valid && once.flag == f {
			continue
		}
		fields = append(fields, f)
	}
	sort.Strings(fields)
	if len(fields) == 0 {
		return // (the minimum fails the check: the recogniser lost the guards)
	}

	// who writes what
	written := map[string]map[string]bool{} // function -> paths
	for _, fi := range c.P.FuncsIn("vaxis") {
		if fi.Decl.Body != nil {
			written[fi.Name] = c04WrittenPaths(fi.Pkg.TypesInfo, fi.Decl.Body)
		}
	}
	writes := func(fn, field string) bool {
		for w := range written[fn] {
			if c04PathsOverlap(w, field) {
				return true
			}
		}
		return false
	}
	allowed := map[string]bool{"vaxis.New": true, "vaxis.(*Vaxis).sendQueries": true, "vaxis.(*Vaxis).applyQuirks": true}

	g := c.P.Graph(nw)
	en := g.Calls(func(fn *types.Func, _ *ast.CallExpr) bool {
		return fn != nil && repoName(fn) == "vaxis.Vaxis.enableModes"
	})
	info := nw.Pkg.TypesInfo

	for _, f := range fields {
		u := reads[f]
		// (1) writers
		var ws []string
		for fn := range written {
			if writes(fn, f) {
				ws = append(ws, fn)
			}
		}
		sort.Strings(ws)
		if len(ws) == 0 {
			c.okTrivial("C04.h", f+"/written only during start-up", u.em.Call.Pos(), "read by a guard of %s; never assigned after construction", u.what)
		}
		for _, fn := range ws {
			key := f + "/written by " + fn
			fi := c.P.Func(fn)
			switch {
			case allowed[fn]:
				c.ok("C04.h", key, fi.Decl.Pos(), "start-up phase writer (the field is read by a guard of %s)", u.what)
			case c04NeverReferenced(c, fi):
				c.okTrivial("C04.h", key, fi.Decl.Pos(), "unexported and never referenced: it never runs")
			default:
				if root := c04StartupPartOf(c, fi, allowed); root != "" {
					c.ok("C04.h", key, fi.Decl.Pos(), "runs only as a part of %s (unexported, plain calls only)", root)
				} else {
					c.bad("C04.h", key, fi.Decl.Pos(), "%s is read by a guard of %s and is written outside the start-up phase: the mode can be set under one value and reset (or set again by Resume) under another", f, u.what)
				}
			}
		}
		// (2) in New, nothing after enableModes writes it
		if len(en) != 1 {
			continue // C04.d reports the shape of New it cannot judge
		}
		reachMemo := map[string]bool{}
		reachesWriter := func(fi *FuncInfo) bool {
			if v, ok := reachMemo[fi.Name]; ok {
				return v
			}
			r := false
			for fn := range staticReach(c.P, fi) {
				if fn != "vaxis.New" && writes(fn, f) {
					r = true
				}
			}
			reachMemo[fi.Name] = r
			return r
		}
		isWrite := func(n ast.Node) bool {
			for _, w := range c04NodeWrites(info, n) {
				if c04PathsOverlap(w, f) {
					return true
				}
			}
			if call, ok := n.(*ast.CallExpr); ok {
				if fn := calleeOf(info, call); fn != nil {
					if fi := c.P.FuncOfObj(fn); fi != nil && fi.Name != "vaxis.New" && reachesWriter(fi) {
						return true
					}
				}
			}
			return false
		}
		var offender ast.Node
		g.walk(Loc{en[0].Loc.B, en[0].Loc.Idx + 1}, func(l Loc, n ast.Node) bool {
			if offender == nil {
				inspectNoLit(n, func(m ast.Node) bool {
					if offender == nil && isWrite(m) {
						offender = m
					}
					return offender == nil
				})
			}
			return true
		}, nil)
		key := "vaxis.New/no write of " + f + " after enableModes"
		if offender == nil {
			c.ok("C04.h", key, en[0].Node.Pos(), "every write of the field precedes the call that enables the modes (read by a guard of %s)", u.what)
		} else {
			c.bad("C04.h", key, offender.Pos(), "%s runs after enableModes and changes %s, which a guard of %s reads: the mode is set under the old value and reset (or set again by Resume) under the new one — for the configurations where the two differ it stays set after Close/Suspend", c04NodeString(offender), f, u.what)
		}
	}
}
