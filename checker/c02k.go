package main

// C02.k — ST suppression for strings that have a body (round-7 seed C02_a_r7).
//
// The property: "suppression of the ST that ends a string". C02.c asks, for every reachable product state q of a
// string state, whether ESC \ received IN q is suppressed; for the product states a string state is ENTERED in
// (flag still clear) that obligation is the recorded finding F-03i (empty string: ESC _ ESC \), so a change that
// makes the flag never become true inside the string — e.g. setting it in escape(), where a deferred
// `p.ignoreST = false` clears it again at function exit — only removes the [ignoreST=true] product states and is
// not seen by C02.c.
//
// C02.k states the condition on the automaton instead of on the flag: in a string BODY state S (the states of the
// reference that consume the string's bytes: oscString, dcsPassthrough, dcsIgnore, sosPm, apc), from every
// reachable product state q of S and for every byte b that keeps the parser in S (a payload or ignored byte),
// the sequence  b ESC \  must not dispatch an ESC sequence. This is a necessary condition of the property (a
// string with a non-empty body, terminated by the 7-bit ST, delivers the string and nothing else). It is decided
// by the same concrete interpretation as C02.a/c (interp.go, which applies deferred statements of the
// transition functions at function exit, in LIFO order), so it does not depend on how the code is cut.
//
// The DCS header states (dcsEntry, dcsParam, dcsIntermediate) never set the flag on today's tree: that is the
// recorded finding F-03i (C02.c/dcsParam/ESC \ etc.) and is not repeated here.

import (
	"fmt"
	"sort"
	"strings"
)

func init() { registerExtra("C02", c02BodySuppression) }

var c02BodyStates = map[string]bool{"oscString": true, "dcsPassthrough": true, "dcsIgnore": true, "sosPm": true, "apc": true}

func c02BodySuppression(c *Ctx) {
	c.Clauses = append(c.Clauses, "C02.k ST suppression with a body: in every string body state, after any byte that stays in the state, the closing ESC \\ dispatches nothing (evaluated on the product automaton, deferred statements included)")
	c.expect("C02.k", 5)
	a := c02Auto
	if a == nil {
		return // the automaton could not be built: C02.a has said why
	}
	type group struct {
		first int
		n     int
		next  c02State
	}
	covered := map[string]int{}
	for _, qk := range a.order {
		q := a.seen[qk]
		sname := q.stateName()
		if !c02BodyStates[sname] {
			continue
		}
		if _, ok := covered[sname]; !ok {
			covered[sname] = 0
		}
		groups := map[string]*group{}
		for _, sym := range c02Alphabet {
			if sym == symEOF || sym == 0x18 || sym == 0x1A || sym == 0x1B {
				continue
			}
			t, ok := a.trans[qk][sym]
			if !ok || t.stop || len(t.problems) > 0 || t.next.stateName() != sname {
				continue // a terminator (BEL in OSC), or not interpretable (reported by C02.a)
			}
			k := t.next.key()
			if g := groups[k]; g != nil {
				g.n++
			} else {
				groups[k] = &group{first: sym, n: 1, next: t.next}
			}
		}
		var gs []*group
		for _, g := range groups {
			gs = append(gs, g)
		}
		sort.Slice(gs, func(i, j int) bool { return gs[i].first < gs[j].first })
		for _, g := range gs {
			covered[sname]++
			key := fmt.Sprintf("%s%s/body byte %s/ESC \\", sname, q.flags(), symName(g.first))
			tEsc := a.stepOnce(g.next, 0x1B)
			if len(tEsc.problems) > 0 || tEsc.stop {
				c.undecided("C02.k", key, a.stepPos, "cannot interpret ESC after the body byte: %s", strings.Join(tEsc.problems, "; "))
				continue
			}
			tBs := a.stepOnce(tEsc.next, 0x5C)
			if len(tBs.problems) > 0 {
				c.undecided("C02.k", key, a.stepPos, "cannot interpret \\ after ESC: %s", strings.Join(tBs.problems, "; "))
				continue
			}
			var delivered []string
			for _, act := range tBs.acts {
				if act == "escapeDispatch" || strings.HasPrefix(act, "emit:") {
					delivered = append(delivered, act)
				}
			}
			if len(delivered) == 0 {
				c.ok("C02.k", key, a.stepPos, "after a body byte (%d symbols, first %s) the closing ESC \\ delivers nothing", g.n, symName(g.first))
			} else {
				c.bad("C02.k", key, a.stepPos, "in state %s, after the body byte %s (and %d other symbols), the ST that ends the string is delivered as a spurious ESC \\ [%s]: the suppression flag is not set once the string has a body, or is cleared again before the state function returns (e.g. by a deferred reset)", qk, symName(g.first), g.n-1, strings.Join(delivered, ","))
			}
		}
	}
	for s, n := range covered {
		if n == 0 {
			c.undecided("C02.k", s+"/body bytes", a.stepPos, "string state %s is reachable but no byte keeps the parser in it: the rule does not see the string's body", s)
		}
	}
}
