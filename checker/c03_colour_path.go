package main

// C03.p — the answer of a colour query as a VALUE FLOW, not as a statement shape.
//
// c03cAgree (c03_colour.go) scans the emulator's reply with the consumer's own pattern. What the query function
// then answers is decided here by following the one path a successful scan takes: the statements after the
// Sscanf are executed concretely (assignments, declarations, if / switch over evaluable conditions, labelled
// break, return), starting at the statement that holds the Sscanf and leaving every enclosing block the way the
// language does. The error of the successful scan is nil, so error checks take their fall-through side by
// evaluation and not by recognition. When the function that scans is a helper (it returns the colour, possibly
// with an error, to the query functions), the returned tuple is bound to the call in each caller and the caller's
// path is followed in the same way, up to the function a user calls. The inlined form the pre-pass produces for
// such helpers (result variables assigned on several paths, `switch { default: ... break L }`) is the same walk.
//
// Whatever the walk cannot evaluate (a loop around the scan, a condition over values it does not know) makes it
// give up with a reason; the caller then falls back to the returned-expression evaluation or reports undecided.

import (
	"fmt"
	"go/ast"
	"go/token"
	"go/types"
)

type c03cVal struct {
	v  int64
	ok bool
}

type c03cFlow int

const (
	c03cNormal c03cFlow = iota
	c03cRet
	c03cBrk
	c03cFail
)

type c03cExec struct {
	c       *Ctx
	fi      *FuncInfo
	info    *types.Info
	ev      *c03cEval
	target  *ast.CallExpr
	seeking bool
	label   string
	vals    []c03cVal
	retExpr string
	why     string
}

func (x *c03cExec) fail(format string, a ...any) c03cFlow {
	if x.why == "" {
		x.why = fmt.Sprintf(format, a...)
	}
	return c03cFail
}

func (x *c03cExec) has(n ast.Node) bool {
	if n == nil {
		return false
	}
	found := false
	ast.Inspect(n, func(m ast.Node) bool {
		if m == ast.Node(x.target) {
			found = true
		}
		return !found
	})
	return found
}

// try: the value of e, or unknown (the reason is dropped: an unknown value only matters when it is used)
func (x *c03cExec) try(e ast.Expr) c03cVal {
	old := x.ev.why
	v, ok := x.ev.expr(e, 0)
	if !ok {
		x.ev.why = old
	}
	return c03cVal{v, ok}
}

func (x *c03cExec) set(lhs ast.Expr, v c03cVal) c03cFlow {
	id, ok := unparen(lhs).(*ast.Ident)
	if !ok {
		return c03cNormal // a field / element: not a value the answer is computed from
	}
	if id.Name == "_" {
		return c03cNormal
	}
	o := x.info.ObjectOf(id)
	if o == nil {
		return c03cNormal
	}
	if !v.ok {
		delete(x.ev.env, o)
		if x.ev.unknown == nil {
			x.ev.unknown = map[types.Object]bool{}
		}
		x.ev.unknown[o] = true
		return c03cNormal
	}
	delete(x.ev.unknown, o)
	x.ev.env[o] = c03cTrunc(v.v, o.Type())
	return c03cNormal
}

// tuple: the values of a call the walk has a result for
func (x *c03cExec) tuple(e ast.Expr) ([]c03cVal, bool) {
	call, ok := unparen(e).(*ast.CallExpr)
	if !ok {
		return nil, false
	}
	v, ok := x.ev.override[call]
	return v, ok
}

func (x *c03cExec) takesAddr(n ast.Node) bool {
	hit := false
	ast.Inspect(n, func(m ast.Node) bool {
		if u, ok := m.(*ast.UnaryExpr); ok && u.Op == token.AND {
			if id, ok := unparen(u.X).(*ast.Ident); ok {
				if _, in := x.ev.env[x.info.ObjectOf(id)]; in {
					hit = true
				}
			}
		}
		return !hit
	})
	return hit
}

func (x *c03cExec) list(l []ast.Stmt) c03cFlow {
	for _, s := range l {
		if fl := x.stmt(s); fl != c03cNormal {
			return fl
		}
	}
	return c03cNormal
}

func (x *c03cExec) unbreak(fl c03cFlow, label string) c03cFlow {
	if fl == c03cBrk && (x.label == "" || x.label == label) {
		x.label = ""
		return c03cNormal
	}
	return fl
}

var c03cOpOf = map[token.Token]token.Token{
	token.ADD_ASSIGN: token.ADD, token.SUB_ASSIGN: token.SUB, token.MUL_ASSIGN: token.MUL, token.QUO_ASSIGN: token.QUO,
	token.REM_ASSIGN: token.REM, token.AND_ASSIGN: token.AND, token.OR_ASSIGN: token.OR, token.XOR_ASSIGN: token.XOR,
	token.SHL_ASSIGN: token.SHL, token.SHR_ASSIGN: token.SHR, token.AND_NOT_ASSIGN: token.AND_NOT,
}

func (x *c03cExec) stmt(s ast.Stmt) c03cFlow {
	return x.stmtL(s, "")
}

func (x *c03cExec) stmtL(s ast.Stmt, label string) c03cFlow {
	if x.seeking {
		if !x.has(s) {
			return c03cNormal // before the reply is scanned: not on the path that is followed
		}
		switch t := s.(type) {
		case *ast.BlockStmt:
			return x.list(t.List)
		case *ast.LabeledStmt:
			return x.stmtL(t.Stmt, t.Label.Name)
		case *ast.IfStmt:
			if x.has(t.Body) {
				return x.list(t.Body.List)
			}
			if t.Else != nil && x.has(t.Else) {
				return x.stmt(t.Else)
			}
		case *ast.SwitchStmt:
			for _, cl := range t.Body.List {
				cc := cl.(*ast.CaseClause)
				for i, bs := range cc.Body {
					if x.has(bs) {
						return x.unbreak(x.list(cc.Body[i:]), label)
					}
				}
			}
		case *ast.SelectStmt:
			for _, cl := range t.Body.List {
				cc := cl.(*ast.CommClause)
				for i, bs := range cc.Body {
					if x.has(bs) {
						return x.unbreak(x.list(cc.Body[i:]), label)
					}
				}
			}
			return x.fail("the reply is scanned in a communication clause")
		case *ast.ForStmt, *ast.RangeStmt:
			return x.fail("the reply is scanned inside a loop")
		case *ast.TypeSwitchStmt:
			return x.fail("the reply is scanned inside a type switch")
		}
		x.seeking = false // this is the statement that holds the call: it is executed, with the call's result bound
	}
	switch t := s.(type) {
	case *ast.EmptyStmt:
		return c03cNormal
	case *ast.BlockStmt:
		return x.list(t.List)
	case *ast.LabeledStmt:
		return x.stmtL(t.Stmt, t.Label.Name)
	case *ast.AssignStmt:
		if op, isOp := c03cOpOf[t.Tok]; isOp && len(t.Lhs) == 1 && len(t.Rhs) == 1 {
			v := x.try(&ast.BinaryExpr{X: t.Lhs[0], Op: op, Y: t.Rhs[0]})
			return x.set(t.Lhs[0], v)
		}
		if t.Tok != token.ASSIGN && t.Tok != token.DEFINE {
			return x.fail("assignment %s", t.Tok)
		}
		if len(t.Rhs) == 1 && len(t.Lhs) > 1 {
			vs, ok := x.tuple(t.Rhs[0])
			for i, l := range t.Lhs {
				v := c03cVal{}
				if ok && i < len(vs) {
					v = vs[i]
				}
				x.set(l, v)
			}
			return c03cNormal
		}
		if len(t.Lhs) != len(t.Rhs) {
			return x.fail("assignment of unequal length")
		}
		vs := make([]c03cVal, len(t.Rhs))
		for i, r := range t.Rhs {
			vs[i] = x.try(r)
		}
		for i, l := range t.Lhs {
			x.set(l, vs[i])
		}
		return c03cNormal
	case *ast.IncDecStmt:
		op := token.ADD
		if t.Tok == token.DEC {
			op = token.SUB
		}
		v := x.try(&ast.BinaryExpr{X: t.X, Op: op, Y: &ast.BasicLit{Kind: token.INT, Value: "1"}})
		return x.set(t.X, v)
	case *ast.DeclStmt:
		gd, ok := t.Decl.(*ast.GenDecl)
		if !ok || gd.Tok != token.VAR {
			return c03cNormal // const / type: folded by the type checker
		}
		for _, sp := range gd.Specs {
			vs := sp.(*ast.ValueSpec)
			if len(vs.Values) == 1 && len(vs.Names) > 1 {
				tv, ok := x.tuple(vs.Values[0])
				for i, nm := range vs.Names {
					v := c03cVal{}
					if ok && i < len(tv) {
						v = tv[i]
					}
					x.set(nm, v)
				}
				continue
			}
			for k, nm := range vs.Names {
				if k < len(vs.Values) {
					x.set(nm, x.try(vs.Values[k]))
					continue
				}
				o := x.info.Defs[nm]
				if o == nil {
					continue
				}
				x.set(nm, c03cVal{0, c03cZeroIsZero(o.Type())})
			}
		}
		return c03cNormal
	case *ast.IfStmt:
		if t.Init != nil {
			if fl := x.stmt(t.Init); fl != c03cNormal {
				return fl
			}
		}
		cv, ok := x.ev.expr(t.Cond, 0)
		if !ok {
			return x.fail("the condition %s on the path of a scanned reply is outside the evaluator (%s)", types.ExprString(t.Cond), x.ev.why)
		}
		if cv != 0 {
			return x.list(t.Body.List)
		}
		if t.Else != nil {
			return x.stmt(t.Else)
		}
		return c03cNormal
	case *ast.SwitchStmt:
		if t.Init != nil {
			if fl := x.stmt(t.Init); fl != c03cNormal {
				return fl
			}
		}
		tag := int64(1)
		if t.Tag != nil {
			v, ok := x.ev.expr(t.Tag, 0)
			if !ok {
				return x.fail("the switch tag %s on the path of a scanned reply is outside the evaluator (%s)", types.ExprString(t.Tag), x.ev.why)
			}
			tag = v
		}
		var chosen, dflt *ast.CaseClause
		for _, cl := range t.Body.List {
			cc := cl.(*ast.CaseClause)
			if cc.List == nil {
				dflt = cc
				continue
			}
			for _, e := range cc.List {
				v, ok := x.ev.expr(e, 0)
				if !ok {
					return x.fail("the case %s on the path of a scanned reply is outside the evaluator (%s)", types.ExprString(e), x.ev.why)
				}
				if (t.Tag != nil && v == tag) || (t.Tag == nil && v != 0) {
					chosen = cc
					break
				}
			}
			if chosen != nil {
				break
			}
		}
		if chosen == nil {
			chosen = dflt
		}
		if chosen == nil {
			return c03cNormal
		}
		for _, bs := range chosen.Body {
			if br, ok := bs.(*ast.BranchStmt); ok && br.Tok == token.FALLTHROUGH {
				return x.fail("fallthrough")
			}
		}
		return x.unbreak(x.list(chosen.Body), label)
	case *ast.BranchStmt:
		if t.Tok != token.BREAK {
			return x.fail("%s on the path of a scanned reply", t.Tok)
		}
		x.label = ""
		if t.Label != nil {
			x.label = t.Label.Name
		}
		return c03cBrk
	case *ast.ReturnStmt:
		x.retExpr = ""
		if len(t.Results) == 0 {
			res := x.fi.Decl.Type.Results
			if res != nil {
				for _, f := range res.List {
					for _, nm := range f.Names {
						v, ok := x.ev.env[x.info.Defs[nm]]
						x.vals = append(x.vals, c03cVal{v, ok})
						x.retExpr = nm.Name
					}
				}
			}
			return c03cRet
		}
		if len(t.Results) == 1 {
			if vs, ok := x.tuple(t.Results[0]); ok {
				x.vals = append([]c03cVal(nil), vs...)
				x.retExpr = types.ExprString(t.Results[0])
				return c03cRet
			}
		}
		var resT []types.Type
		if res := x.fi.Decl.Type.Results; res != nil {
			for _, f := range res.List {
				n := len(f.Names)
				if n == 0 {
					n = 1
				}
				for i := 0; i < n; i++ {
					resT = append(resT, x.info.TypeOf(f.Type))
				}
			}
		}
		for i, r := range t.Results {
			v := x.try(r)
			if v.ok && i < len(resT) {
				v.v = c03cTrunc(v.v, resT[i])
			}
			x.vals = append(x.vals, v)
			if x.retExpr != "" {
				x.retExpr += ", "
			}
			x.retExpr += types.ExprString(r)
		}
		return c03cRet
	case *ast.ExprStmt:
		if x.takesAddr(t) {
			return x.fail("the address of a value on the path is passed to %s", types.ExprString(t.X))
		}
		if call, ok := unparen(t.X).(*ast.CallExpr); ok {
			if id, ok := unparen(call.Fun).(*ast.Ident); ok {
				if b, isB := x.info.Uses[id].(*types.Builtin); isB && b.Name() == "panic" {
					return x.fail("panic on the path of a scanned reply")
				}
			}
		}
		return c03cNormal // logging and the like: no value the answer is computed from
	case *ast.DeferStmt, *ast.GoStmt, *ast.SendStmt:
		if x.takesAddr(t) {
			return x.fail("the address of a value on the path escapes")
		}
		return c03cNormal
	}
	return x.fail("statement %T on the path of a scanned reply", s)
}

// c03cZeroIsZero: the zero value of t is modelled by the integer 0 (numbers, booleans, nil of interfaces and
// pointers)
func c03cZeroIsZero(t types.Type) bool {
	switch u := t.Underlying().(type) {
	case *types.Basic:
		return u.Info()&(types.IsInteger|types.IsBoolean) != 0
	case *types.Interface, *types.Pointer:
		return true
	}
	return false
}

// c03cNamedResultsWithDefer: a deferred function may rewrite named results behind the walk's back
func c03cNamedResultsWithDefer(fi *FuncInfo) bool {
	res := fi.Decl.Type.Results
	named := false
	if res != nil {
		for _, f := range res.List {
			if len(f.Names) > 0 {
				named = true
			}
		}
	}
	if !named {
		return false
	}
	has := false
	ast.Inspect(fi.Decl.Body, func(n ast.Node) bool {
		if _, ok := n.(*ast.DeferStmt); ok {
			has = true
		}
		return !has
	})
	return has
}

// c03cAnswer: one answer a user-facing function gives for the path on which `target` (a call in fi) has the
// results ov
type c03cAnswer struct {
	v     int64
	where string // function and returned expression
}

// c03cPathAnswers follows the path from target in fi to fi's return and, while fi is an unexported function that
// other functions of the package call, on through every caller (site: only that caller at the first level, the
// one the scan pattern was bound for).
func c03cPathAnswers(c *Ctx, fi *FuncInfo, target *ast.CallExpr, ov []c03cVal, env map[types.Object]int64, site *c03cSite, depth int) ([]c03cAnswer, string) {
	if depth > 3 {
		return nil, "the chain of helpers between the scan and the query function is too long"
	}
	if c03cNamedResultsWithDefer(fi) {
		return nil, fi.Name + " has named results and a deferred call"
	}
	info := fi.Pkg.TypesInfo
	if env == nil {
		env = map[types.Object]int64{}
	}
	ev := &c03cEval{c: c, info: info, env: env, override: map[*ast.CallExpr][]c03cVal{target: ov}}
	x := &c03cExec{c: c, fi: fi, info: info, ev: ev, target: target, seeking: true}
	switch fl := x.list(fi.Decl.Body.List); {
	case fl == c03cFail:
		return nil, x.why
	case x.seeking:
		return nil, "the call is not in a statement of " + fi.Name
	case fl != c03cRet:
		return nil, "the path of a scanned reply leaves " + fi.Name + " without a return"
	}
	// which result is the colour
	idx := -1
	var resT []types.Type
	if res := fi.Decl.Type.Results; res != nil {
		for _, f := range res.List {
			n := len(f.Names)
			if n == 0 {
				n = 1
			}
			for i := 0; i < n; i++ {
				resT = append(resT, info.TypeOf(f.Type))
			}
		}
	}
	for i, t := range resT {
		if nt, ok := t.(*types.Named); ok && nt.Obj().Name() == "Color" && shortPkg(nt.Obj().Pkg().Path()) == "vaxis" {
			if idx >= 0 {
				idx = -2
				break
			}
			idx = i
		}
	}
	if idx == -1 && len(resT) == 1 {
		idx = 0
	}
	own := func() ([]c03cAnswer, string) {
		if idx < 0 || idx >= len(x.vals) {
			return nil, fi.Name + " does not return one colour"
		}
		if !x.vals[idx].ok {
			why := ev.why
			if why == "" {
				why = "a value on the path is not known"
			}
			return nil, "the returned expression " + x.retExpr + " of " + fi.Name + " is outside the evaluator (" + why + ")"
		}
		return []c03cAnswer{{x.vals[idx].v, fi.Name + " returns " + x.retExpr}}, ""
	}
	var sites []c03cSite
	if site != nil {
		sites = []c03cSite{*site}
	} else if !ast.IsExported(fi.Decl.Name.Name) {
		sites = c03cCallSites(c, fi)
	}
	if len(sites) == 0 {
		return own()
	}
	var out []c03cAnswer
	for _, cs := range sites {
		if cs.cf == nil || cs.call == nil {
			return own()
		}
		as, why := c03cPathAnswers(c, cs.cf, cs.call, x.vals, nil, nil, depth+1)
		if why != "" {
			if a, w := own(); w == "" && site != nil && len(resT) == 1 {
				// the helper's own answer is a colour; what the caller does with it is outside the evaluator
				out = append(out, a...)
				continue
			}
			return nil, why
		}
		out = append(out, as...)
	}
	return out, ""
}
