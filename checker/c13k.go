package main

// C13.k — mouse events on every row and column of the child's screen, whatever the scrolling region.
//
// "Under SGR mouse mode the same button, position and press/release/motion type ... for all mouse
// buttons, positions and event types": a position is a cell of the child's SCREEN. The emulator keeps
// a second geometry next to the screen size, the DECSTBM scrolling region (Model.margin), which most
// of its code uses as "first / last line" because resize() sets it to the whole screen. Whatever
// handleMouse consults of the Model's geometry, it must be the screen: a guard, clamp or offset taken
// from the scrolling region (seed C13_b_r9: events with `row(msg.Row) > vt.margin.bottom` are dropped
// "because the child doesn't have that cell") is right until a child keeps a status line out of its
// region (CSI 1;11 r on 12 rows, what less / vim / tmux style programs do) and from then on loses or
// moves every event on the rows outside the region.
//
// The other mouse rules evaluate Update on a Model of which only the mode flags are known; a condition
// over the geometry is then a condition "the evaluator cannot compute" and the outcome is undecided.
// This rule carries the WHOLE Model concretely over a real history of the widget:
//
//     New()                        evaluated from its syntax tree (fields a started widget holds that
//                                  New() leaves nil — pty, parser, cmd, ... — are the PTY stand-in / unknown)
//     Resize(80, 12)               the public sizing entry (what StartWithSize and Draw reach as well)
//     CSI Pt ; Pb r [CSI ? 6 h]    the child's scrolling region (and origin mode), through (*Model).update
//     Update(Mouse)                for EVERY row 0..11, at the first, a middle and the last column
//
// and applies the end-to-end relation of C13.c (bytes written -> reference tokeniser ->
// Vaxis.handleSequence -> Mouse posted) to press, release, drag, buttonless motion and wheel with
// every reporting mode and 1006 set; under 1000 without 1006 an X10 report must be written (gating
// only, as in C13.d). Scenarios: the region as Resize leaves it, CSI 1;11 r, CSI 2;11 r (rows above the
// region as well), and CSI 3;9 r with origin mode set (mouse positions are screen positions, never
// relative to the region's origin).
//
// Every scenario is a possible run of the widget and every event lies inside the child's screen, so a
// mismatch is a failure of the property (necessary condition). A guard that bounds events by the real
// screen size (width()/height(), len of the screen buffers, fields resize maintains) is silent: all
// sampled events are inside. During these evaluations every method of the followed packages is
// interpreted (nothing is skipped as "irrelevant"), so geometry kept in helpers, cached fields or
// sub-structs is followed as well; anything the evaluator cannot compute makes the obligation
// undecided, never guessed.

import (
	"fmt"
	"go/types"
)

func init() { registerExtra("C13", c13MouseGeometry) }

const (
	c13KCols = 80
	c13KRows = 12
)

func c13MouseGeometry(c *Ctx) {
	c.Clauses = append(c.Clauses, fmt.Sprintf("C13.k mouse reports do not depend on the scrolling region: on the Model New() builds, after Resize(%d,%d) and after the child's CSI 1;11 r, CSI 2;11 r, and CSI 3;9 r with origin mode set (the whole Model followed concretely, every method interpreted), a press, release, drag, buttonless motion and wheel step on EVERY row of the screen (first, middle and last column) is written under 1006 and decodes to the same button, column, row and event type, and under 1000 alone an X10 report is written", c13KCols, c13KRows))
	c.expect("C13.k", 24)
	x := c13lastEnv
	if x == nil || x.c != c {
		return // runC13 stopped early and said why
	}
	x.ruleK()
}

// evalFunc evaluates a receiver-less function and hands back its results (run() observes effects on
// the receiver only). A fork is not followed: the value of a constructor must not depend on anything
// the evaluator cannot compute.
func (x *c13Env) evalFunc(fi *FuncInfo, args ...c13V) (ret []c13V, und string) {
	m := x.m
	m.writes, m.events, m.steps, m.depth = nil, nil, 0, 0
	m.forced, m.taken, m.pending = nil, nil, nil
	m.firstUnknown = ""
	defer func() {
		if r := recover(); r != nil {
			switch e := r.(type) {
			case c13Abort:
				ret, und = nil, e.msg
			case c13Panic:
				ret, und = nil, "panics: "+e.msg
			default:
				panic(r)
			}
		}
	}()
	ret = m.callDecl(fi, nil, args, fi.Decl)
	if len(m.pending) > 0 {
		return nil, "its result depends on a condition the evaluator cannot compute: " + m.firstUnknown
	}
	return ret, ""
}

// runAll is run with every method of the followed packages interpreted.
func (x *c13Env) runAll(fi *FuncInfo, recv c13V, args ...c13V) c13Res {
	old := x.m.allMatter
	x.m.allMatter = true
	defer func() { x.m.allMatter = old }()
	return x.run(fi, recv, args...)
}

// modelNew builds the Model of a started widget: what New() returns, with the PTY stand-in, the given
// mode flags, and "unknown" in every reference-like field New() leaves nil (Start / Draw / Attach set
// them). how says which construction was used.
func (x *c13Env) modelNew(flags map[string]bool) (mv c13V, how string) {
	setFlags := func(o *c13Obj) bool {
		md := o.f["mode"]
		if md == nil {
			z := x.m.zero(x.modeT)
			md = &z
			o.f["mode"] = md
		}
		if md.k != c13Struct || md.st == nil {
			return false
		}
		for _, f := range c13Flags {
			v := c13V{k: c13Bool, b: flags[f], typ: types.Typ[types.Bool]}
			md.st.f[f] = &v
		}
		return true
	}
	mst, _ := x.modelT.Underlying().(*types.Struct)
	why := "widgets/term.New not found"
	if fnNew := x.c.P.Func("widgets/term.New"); fnNew != nil && fnNew.Decl.Body != nil && fnNew.Decl.Recv == nil && fnNew.Decl.Type.Params.NumFields() == 0 {
		old := x.m.allMatter
		x.m.allMatter = true
		ret, und := x.evalFunc(fnNew)
		x.m.allMatter = old
		why = und
		if und == "" {
			why = "New() does not return a *Model the evaluator holds"
			if len(ret) == 1 && ret[0].k == c13Ptr && ret[0].st != nil && ret[0].st.typ != nil && types.Identical(ret[0].st.typ, x.modelT) && !ret[0].st.opaque {
				o := ret[0].st
				for i := 0; mst != nil && i < mst.NumFields(); i++ {
					f := mst.Field(i)
					switch f.Type().Underlying().(type) {
					case *types.Pointer, *types.Chan, *types.Signature, *types.Interface:
						if s := o.f[f.Name()]; s == nil || s.k == c13Nil {
							u := c13unk("field %s is set when the widget is started", f.Name())
							o.f[f.Name()] = &u
						}
					}
				}
				sink := c13V{k: c13Sink}
				o.f["pty"] = &sink
				if setFlags(o) {
					return c13V{k: c13Ptr, st: o, typ: types.NewPointer(x.modelT)}, "the Model New() builds"
				}
				why = "New() leaves Model.mode in a form the evaluator does not hold"
			}
		}
	}
	// New() cannot be followed: every field unknown except the PTY, the mode flags, and plain data /
	// slices, which a sizing call establishes (they start from their zero value)
	mv = x.model(flags)
	for i := 0; mst != nil && i < mst.NumFields(); i++ {
		f := mst.Field(i)
		if f.Name() == "mode" || f.Name() == "pty" || f.Exported() {
			continue
		}
		_, isSlice := f.Type().Underlying().(*types.Slice)
		if isSlice || x.plainType(f.Type(), 0) {
			z := x.m.zero(f.Type())
			mv.st.f[f.Name()] = &z
		}
	}
	return mv, "a Model with zeroed geometry (New() could not be followed: " + why + ")"
}

// mouseRoundTripOn is mouseRoundTrip on a given Model (every method interpreted on the widget's side).
func (x *c13Env) mouseRoundTripOn(v *c13Verdict, at string, model c13V, btn, col, row, et int64) {
	v.n++
	r := x.runAll(x.fnUpdate, model, x.mouseEv(btn, col, row, et))
	if r.undecided != "" {
		v.unk("%s: %s", at, r.undecided)
		return
	}
	if r.panicked != "" {
		v.fail("%s: Update panics: %s", at, r.panicked)
		return
	}
	evs, toks, und, bad := x.decode(r.writes)
	switch {
	case und != "":
		v.unk("%s: %s", at, und)
	case bad != "":
		v.fail("%s: %s", at, bad)
	case r.writes == "":
		v.fail("%s: nothing is written although the child enabled this event and the cell is on its screen", at)
	case len(toks) != 1 || toks[0].kind != "CSI":
		v.fail("%s: written %q is not one CSI sequence", at, r.writes)
	case len(evs) != 1 || x.evType(evs[0]) != "Mouse":
		v.fail("%s: written %q decodes to %d events (want one Mouse)", at, r.writes, len(evs))
	default:
		gb, o1 := x.intField(evs[0], "Button")
		gc, o2 := x.intField(evs[0], "Col")
		gr, o3 := x.intField(evs[0], "Row")
		ge, o4 := x.intField(evs[0], "EventType")
		if !(o1 && o2 && o3 && o4) {
			v.unk("%s: decoded mouse event has fields the evaluator could not compute", at)
		} else if gb != btn || gc != col || gr != row || ge != et {
			v.fail("%s: written %q decodes to button %d col %d row %d type %d, want button %d col %d row %d type %d (a mouse position is a cell of the screen, whatever the scrolling region)",
				at, r.writes, gb, gc, gr, ge, btn, col, row, et)
		}
	}
}

func (x *c13Env) ruleK() {
	pos := x.fnUpdate.Decl.Pos()
	var fnSize *FuncInfo
	for _, n := range []string{"Resize", "resizePty", "resize"} {
		fi := x.c.P.Func("widgets/term.(*Model)." + n)
		if fi != nil && fi.Decl.Body != nil && fi.Decl.Type.Params.NumFields() == 2 {
			ok := true
			sig := fi.Obj.Type().(*types.Signature)
			for i := 0; i < sig.Params().Len(); i++ {
				ok = ok && c13IsIntegerType(sig.Params().At(i).Type())
			}
			if ok {
				fnSize = fi
				break
			}
		}
	}
	if fnSize == nil {
		x.c.undecided("C13.k", "setup/sizing entry", pos, "none of (*Model).Resize / resizePty / resize (two integer parameters) found: the sizing entry of the widget has changed shape")
		return
	}
	intT := types.Typ[types.Int]
	csi := func(final rune, inter string, ps ...int) c13Tok {
		t := c13Tok{kind: "CSI", r: final, inter: []rune(inter)}
		for _, p := range ps {
			t.params = append(t.params, []int{p})
		}
		return t
	}
	type scenario struct {
		name string
		toks []c13Tok
	}
	scenarios := []scenario{
		{"the scrolling region as Resize leaves it", nil},
		{"after CSI 1;11 r (last row outside the scrolling region)", []c13Tok{csi('r', "", 1, 11)}},
		{"after CSI 2;11 r (first and last row outside the scrolling region)", []c13Tok{csi('r', "", 2, 11)}},
		{"after CSI 3;9 r and CSI ? 6 h (origin mode)", []c13Tok{csi('r', "", 3, 9), csi('h', "?", 6)}},
	}
	type cls struct {
		name, btn, et string
	}
	classes := []cls{{"press", "MouseLeftButton", "EventPress"}, {"release", "MouseLeftButton", "EventRelease"},
		{"drag", "MouseLeftButton", "EventMotion"}, {"buttonless motion", "MouseNoButton", "EventMotion"}, {"wheel down", "MouseWheelDown", "EventPress"}}
	all := map[string]bool{"mouseButtons": true, "mouseDrag": true, "mouseMotion": true, "mouseSGR": true}
	x10 := map[string]bool{"mouseButtons": true}

	// build runs the history of one scenario on a fresh Model with the given modes
	build := func(sc scenario, flags map[string]bool) (model c13V, how, und, bad string) {
		base, how := x.modelNew(flags)
		r := x.runAll(fnSize, base, c13int(c13KCols, intT), c13int(c13KRows, intT))
		switch {
		case r.undecided != "":
			return base, how, fmt.Sprintf("%s(%d,%d): %s", fnSize.Name, c13KCols, c13KRows, r.undecided), ""
		case r.panicked != "":
			return base, how, "", fmt.Sprintf("%s(%d,%d) panics: %s", fnSize.Name, c13KCols, c13KRows, r.panicked)
		}
		model = r.recv
		for _, t := range sc.toks {
			r := x.runAll(x.fnPty, model, x.seqV(t))
			switch {
			case r.undecided != "":
				return model, how, t.String() + ": " + r.undecided, ""
			case r.panicked != "":
				return model, how, "", "update(" + t.String() + ") panics: " + r.panicked
			case r.writes != "":
				return model, how, t.String() + ": the widget answers the child (" + fmt.Sprintf("%q", r.writes) + "); not a plain mode/region change", ""
			}
			model = r.recv
			// the history must leave the modes the scenario claims (C13.e decides DECSET/DECRST themselves)
			got := x.flagsOf(model)
			for _, f := range c13Flags {
				if g, ok := got[f]; !ok || g != flags[f] {
					return model, how, fmt.Sprintf("%s: the decided mode flag %s is then %v (known: %v), not what the scenario set", t.String(), f, g, ok), ""
				}
			}
		}
		return model, how, "", ""
	}

	for _, sc := range scenarios {
		prefix := fmt.Sprintf("term.(*Model).Update/mouse on every row of a %dx%d screen, %s: ", c13KCols, c13KRows, sc.name)
		model, how, und, bad := build(sc, all)
		for _, cl := range classes {
			v := &c13Verdict{}
			switch {
			case und != "":
				v.n++
				v.unk("%s", und)
			case bad != "":
				v.n++
				v.fail("%s", bad)
			default:
				btn, et := x.consts[cl.btn], x.consts[cl.et]
				for row := int64(0); row < c13KRows; row++ {
					for _, col := range []int64{0, (row*7+3)%(c13KCols-2) + 1, c13KCols - 1} {
						x.mouseRoundTripOn(v, fmt.Sprintf("col %d row %d", col, row), model, btn, col, row, et)
					}
				}
			}
			x.emit("C13.k", prefix+cl.name+" round trip under 1006", x.fnUpdate, v,
				"button, column, row and event type survive on every row ("+how+")")
		}
		// X10: gating only
		v := &c13Verdict{}
		model, how, und, bad = build(sc, x10)
		switch {
		case und != "":
			v.n++
			v.unk("%s", und)
		case bad != "":
			v.n++
			v.fail("%s", bad)
		default:
			for row := int64(0); row < c13KRows; row++ {
				for _, col := range []int64{0, c13KCols - 1} {
					at := fmt.Sprintf("col %d row %d", col, row)
					v.n++
					r := x.runAll(x.fnUpdate, model, x.mouseEv(x.consts["MouseLeftButton"], col, row, x.consts["EventPress"]))
					switch {
					case r.undecided != "":
						v.unk("%s: %s", at, r.undecided)
					case r.panicked != "":
						v.fail("%s: Update panics: %s", at, r.panicked)
					case r.writes == "":
						v.fail("%s: nothing is written although the child set 1000 and the cell is on its screen", at)
					case len(r.writes) < 3 || r.writes[:3] != "\x1b[M":
						v.fail("%s: written %q is not an X10 mouse report", at, r.writes)
					}
				}
			}
		}
		x.emit("C13.k", prefix+"press reported under 1000 alone", x.fnUpdate, v, "an X10 report is written on every row ("+how+")")
	}
}
