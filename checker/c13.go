package main

// C13 — keys, pastes and mouse forwarded into the embedded terminal.
//
// Method (engines E10/E9 of DESIGN, realised by evaluation rather than by
// shape matching): the public entry point widgets/term.(*Model).Update is
// evaluated from its syntax tree (c13_interp.go) for concrete events and
// concrete child modes; the bytes it hands to the PTY stand-in are split by a
// reference VT500 tokeniser (the grammar C02 proves the library's parser
// against) and each sequence is evaluated through the root package's
// (*Vaxis).handleSequence (hence decodeKey, specialsKeys, parseMouseEvent) with
// the event queue as a stand-in. What comes out must be the event that went in.
// Tables, formats, argument orders, masks, mode guards and the dispatch on the
// final byte are therefore compared as relations over their whole (finite)
// domains, independent of how the code is arranged.
//
//   a  special keys x {Shift,Alt,Ctrl} subsets x DECCKM x DECKPAM: decode(encode) = id;
//      keys beyond the legacy set present in the encoder's tables follow the xterm F13+ convention
//   b  DECCKM selects SS3 / CSI for the unmodified cursor keys; wheel->arrow translation
//      (alternate scroll) sends exactly what the arrow key itself sends in the child's modes
//   c  SGR mouse: button, column, row and press/release/motion survive the round trip
//   d  gating: truth table over 1000/1002/1003/1006/1007/alt-screen for each event class, in
//      both directions (nothing the child did not ask for; everything it asked for); paste
//      brackets only under 2004 and they decode to PasteStart/PasteEnd
//   e  (added) the child's DECSET/DECRST numbers and ESC = / ESC > drive exactly the flag
//      each one names (evaluated through (*Model).update)
//   f  (added) chords with a single unambiguous legacy encoding (Enter/Tab/Esc/Backspace,
//      printable ASCII, Ctrl+letter, Alt+letter/digit) round-trip as well
//   g  (added) compound DECSET/DECRST = its parameters one by one
//   h  (added, c13x.go) paste brackets over whole histories: state the widget keeps between calls
//      (fields promoted to tracked state on demand) never makes a boundary go out while 2004 is
//      reset nor stay in while it is set
//   i  (added, c13y.go) the SGR round trip of c at column/row indices around and beyond the legacy
//      single-byte limit (222 … 65534): no clamp or narrowing on the way to the decimal report
//   j  (added, c13z.go) the motion gate for EVERY constant of vaxis.MouseButton: drags with any button that
//      can be held are reported (and round-trip under 1006) under 1002 / 1003 alone; no motion under 1000 alone

import (
	"fmt"
	"go/constant"
	"go/types"
	"sort"
	"strings"
	"unicode"
)

type c13Env struct {
	c         *Ctx
	m         *c13M
	root      *types.Package
	term      *types.Package
	ansi      *types.Package
	fnUpdate  *FuncInfo // widgets/term.(*Model).Update
	fnPty     *FuncInfo // widgets/term.(*Model).update
	fnHandle  *FuncInfo // vaxis.(*Vaxis).handleSequence
	modelT    *types.Named
	modeT     types.Type
	vaxisT    *types.Named
	flagNames []string
	consts    map[string]int64
	keyName   map[int64]string
	// further fields of Model tracked concretely from their zero value (promoted on demand, c13x.go)
	aux       []string
	auxVar    map[string]*types.Var
	auxNo     map[string]string // field -> why it cannot be tracked
	termReach map[*types.Func]bool
}

var c13Flags = []string{"decckm", "deckpam", "paste", "mouseButtons", "mouseDrag", "mouseMotion", "mouseSGR", "altScroll", "smcup"}

func init() { register("C13", false, runC13) }

func runC13(c *Ctx) {
	c.Clauses = []string{
		"C13.a decode(encode(key,mods)) = (key,mods) for arrows/Home/End/Ins/Del/PgUp/PgDn/F1-F12 under every subset of Shift/Alt/Ctrl and every DECCKM/DECKPAM setting, evaluated end to end Model.Update -> reference tokeniser -> Vaxis.handleSequence; further keys of the encoder tables follow the xterm F13+ convention; the tables are never written",
		"C13.b DECCKM selects the SS3 (set) or CSI (reset) form of the unmodified cursor keys; alternate-scroll arrows equal what the arrow key itself sends in the child's modes",
		"C13.c SGR mouse reports decode to the same button, column, row and press/release/motion",
		"C13.d gating truth table over modes 1000/1002/1003/1006/1007/alternate screen for press, release, wheel, drag and motion, in both directions; paste brackets only under 2004 and they decode to PasteStart/PasteEnd",
		"C13.e DECSET/DECRST 1,1000,1002,1003,1006,1007,1049,2004 and ESC = / ESC > change exactly the flag they name",
		"C13.g every parameter of a compound DECSET/DECRST is processed: for every parameter number x the mode handler knows (discovered by evaluating it on a sentinel) and every decided mode b, CSI ? x;b h/l leaves the decided flags exactly as CSI ? x h/l followed by CSI ? b h/l does, from start states with the other flags all set and all clear",
		"C13.f chords with one unambiguous legacy encoding round-trip: Enter/Tab/Esc/Backspace/Space, printable ASCII (with Shift for capitals), Ctrl+a..z except h/i/m, Alt+a..z and Alt+0..9; the Ctrl/Alt chords also with Key.Text set (associated text), and Alt+Shift+letter with text (decoding to the chord or to its legacy form Alt+capital)",
	}
	c.NotDec = []string{
		"Ctrl/Alt chords on printable keys outside C13.f (Ctrl+digit, Ctrl+punctuation, Ctrl+Alt+x, Alt+capital: the legacy encoding is ambiguous or not expressible)",
		"modifier bits of mouse events (the statement lists button, position and type only)",
		"the X10 (non-SGR) mouse byte encoding; only its gating is decided",
		"CSI 1;m R (modified F3) while a cursor-position request is outstanding (documented ambiguity of the legacy encoding)",
		"grapheme clustering of Print sequences",
	}
	c.Assume = append(c.Assume,
		"the reference tokeniser (ESC O x, ESC [ private? params intermediates final, ESC final, C0, single-rune Print) is the grammar the library's parser implements (decided by C02)",
		"functions of packages other than the root package and widgets/term, and methods of Model/Vaxis that neither mention the PTY, a decided mode flag, pastePending/reqCursorPos nor send on a channel, do not affect the bytes written or the events posted",
		"no cursor-position request is outstanding and no paste is pending when the sequence is decoded")
	c.expect("C13.a", 200)
	c.expect("C13.b", 8)
	c.expect("C13.c", 18)
	c.expect("C13.d", 16)
	c.expect("C13.e", 18)
	c.expect("C13.f", 230)
	c.expect("C13.g", 18)

	x := c13Setup(c)
	if x == nil {
		return
	}
	c13lastEnv = x
	x.m.unkOf = x.modelT
	x.ruleA()
	x.ruleB()
	x.ruleC()
	x.ruleD()
	x.ruleE()
	x.ruleF()
	x.ruleG()
}

// ------------------------------------------------------------------ set-up

func c13Setup(c *Ctx) *c13Env {
	x := &c13Env{c: c, consts: map[string]int64{}, keyName: map[int64]string{}}
	fail := func(what string) *c13Env {
		c.undecided("C13.a", "setup/"+what, 0, "%s not found: the entry points and state named by the property have changed shape", what)
		return nil
	}
	rp, tp, ap := c.P.Pkg("vaxis"), c.P.Pkg("widgets/term"), c.P.Pkg("ansi")
	if rp == nil || tp == nil || ap == nil {
		return fail("packages vaxis, widgets/term, ansi")
	}
	x.root, x.term, x.ansi = rp.Types, tp.Types, ap.Types
	x.fnUpdate = c.P.Func("widgets/term.(*Model).Update")
	x.fnPty = c.P.Func("widgets/term.(*Model).update")
	x.fnHandle = c.P.Func("vaxis.(*Vaxis).handleSequence")
	if x.fnUpdate == nil {
		return fail("widgets/term.(*Model).Update")
	}
	if x.fnPty == nil {
		return fail("widgets/term.(*Model).update")
	}
	if x.fnHandle == nil {
		return fail("vaxis.(*Vaxis).handleSequence")
	}
	named := func(p *types.Package, n string) *types.Named {
		if tn, ok := p.Scope().Lookup(n).(*types.TypeName); ok {
			nt, _ := tn.Type().(*types.Named)
			return nt
		}
		return nil
	}
	x.modelT, x.vaxisT = named(x.term, "Model"), named(x.root, "Vaxis")
	if x.modelT == nil || x.vaxisT == nil {
		return fail("types Model / Vaxis")
	}
	for _, n := range []string{"Key", "Mouse", "PasteStartEvent", "PasteEndEvent"} {
		if named(x.root, n) == nil {
			return fail("type vaxis." + n)
		}
	}
	for _, n := range []string{"SS3", "CSI", "ESC", "C0", "Print"} {
		if named(x.ansi, n) == nil {
			return fail("type ansi." + n)
		}
	}
	x.m = newC13M(c, x.root.Path(), x.term.Path())
	// fields
	mst, _ := x.modelT.Underlying().(*types.Struct)
	var modeF, ptyF *types.Var
	for i := 0; mst != nil && i < mst.NumFields(); i++ {
		switch mst.Field(i).Name() {
		case "mode":
			modeF = mst.Field(i)
		case "pty":
			ptyF = mst.Field(i)
		}
	}
	if modeF == nil || ptyF == nil {
		return fail("fields Model.mode / Model.pty")
	}
	x.modeT = modeF.Type()
	x.m.tracked[ptyF] = true
	mdst, _ := x.modeT.Underlying().(*types.Struct)
	have := map[string]*types.Var{}
	for i := 0; mdst != nil && i < mdst.NumFields(); i++ {
		have[mdst.Field(i).Name()] = mdst.Field(i)
	}
	for _, f := range c13Flags {
		v := have[f]
		if v == nil || !types.Identical(v.Type().Underlying(), types.Typ[types.Bool]) {
			return fail("bool field mode." + f)
		}
		x.m.tracked[v] = true
	}
	vst, _ := x.vaxisT.Underlying().(*types.Struct)
	for i := 0; vst != nil && i < vst.NumFields(); i++ {
		f := vst.Field(i)
		if f.Name() == "pastePending" || f.Name() == "reqCursorPos" {
			x.m.tracked[f] = true
		}
	}
	// constants
	sc := x.root.Scope()
	for _, n := range sc.Names() {
		cn, ok := sc.Lookup(n).(*types.Const)
		if !ok || cn.Val().Kind() != constant.Int {
			continue
		}
		v, ok := constant.Int64Val(cn.Val())
		if !ok {
			continue
		}
		x.consts[n] = v
		if strings.HasPrefix(n, "Key") && v > unicode.MaxRune {
			if _, dup := x.keyName[v]; !dup {
				x.keyName[v] = n
			}
		}
	}
	need := []string{"ModShift", "ModAlt", "ModCtrl", "EventPress", "EventRelease", "EventMotion",
		"MouseLeftButton", "MouseMiddleButton", "MouseRightButton", "MouseNoButton", "MouseWheelUp", "MouseWheelDown",
		"KeyUp", "KeyDown", "KeyLeft", "KeyRight", "KeyHome", "KeyEnd", "KeyInsert", "KeyDelete", "KeyPgUp", "KeyPgDown"}
	for i := 1; i <= 12; i++ {
		need = append(need, fmt.Sprintf("KeyF%02d", i))
	}
	for _, n := range need {
		if _, ok := x.consts[n]; !ok {
			return fail("constant vaxis." + n)
		}
	}
	return x
}

func (x *c13Env) typ(p *types.Package, n string) types.Type {
	return p.Scope().Lookup(n).Type()
}

func (x *c13Env) fieldType(t types.Type, name string) types.Type {
	st, _ := t.Underlying().(*types.Struct)
	for i := 0; st != nil && i < st.NumFields(); i++ {
		if st.Field(i).Name() == name {
			return st.Field(i).Type()
		}
	}
	return nil
}

// model builds the Model stand-in: every field unknown except the decided mode flags and the PTY.
func (x *c13Env) model(flags map[string]bool) c13V {
	md := &c13Obj{typ: x.modeT, f: map[string]*c13V{}}
	for _, f := range c13Flags {
		v := c13V{k: c13Bool, b: flags[f], typ: types.Typ[types.Bool]}
		md.f[f] = &v
	}
	mv := c13V{k: c13Struct, st: md, typ: x.modeT}
	sink := c13V{k: c13Sink}
	o := &c13Obj{typ: x.modelT, opaque: true, f: map[string]*c13V{"mode": &mv, "pty": &sink}}
	return c13V{k: c13Ptr, st: o, typ: types.NewPointer(x.modelT)}
}

func (x *c13Env) flagsOf(model c13V) map[string]bool {
	out := map[string]bool{}
	md := model.st.f["mode"]
	for _, f := range c13Flags {
		if s := md.st.f[f]; s != nil && s.k == c13Bool {
			out[f] = s.b
		}
	}
	return out
}

func (x *c13Env) vaxis() c13V {
	o := &c13Obj{typ: x.vaxisT, opaque: true, f: map[string]*c13V{}}
	st, _ := x.vaxisT.Underlying().(*types.Struct)
	for i := 0; st != nil && i < st.NumFields(); i++ {
		f := st.Field(i)
		switch {
		case f.Name() == "pastePending":
			v := c13V{k: c13Bool, typ: f.Type()}
			o.f[f.Name()] = &v
		case f.Name() == "reqCursorPos":
			v := x.m.zero(f.Type())
			o.f[f.Name()] = &v
		default:
			if ch, ok := f.Type().Underlying().(*types.Chan); ok {
				if nt, ok := ch.Elem().(*types.Named); ok && nt.Obj().Name() == "Event" {
					v := c13V{k: c13Chan, typ: f.Type()}
					o.f[f.Name()] = &v
				}
			}
		}
	}
	return c13V{k: c13Ptr, st: o, typ: types.NewPointer(x.vaxisT)}
}

func (x *c13Env) structV(t types.Type, fields map[string]c13V) c13V {
	o := &c13Obj{typ: t, f: map[string]*c13V{}}
	for k, v := range fields {
		ft := x.fieldType(t, k)
		vv := v
		if vv.typ == nil || vv.k == c13Int {
			vv.typ = ft
		}
		o.f[k] = &vv
	}
	return c13V{k: c13Struct, st: o, typ: t}
}

func (x *c13Env) keyEv(code, mods int64) c13V {
	return x.structV(x.typ(x.root, "Key"), map[string]c13V{"Keycode": {k: c13Int, i: code}, "Modifiers": {k: c13Int, i: mods}})
}

func (x *c13Env) mouseEv(button, col, row, et int64) c13V {
	return x.structV(x.typ(x.root, "Mouse"), map[string]c13V{"Button": {k: c13Int, i: button}, "Col": {k: c13Int, i: col},
		"Row": {k: c13Int, i: row}, "EventType": {k: c13Int, i: et}})
}

type c13Res struct {
	writes    string
	events    []c13V
	recv      c13V // the receiver after the run (the caller's value is never mutated)
	undecided string
	panicked  string
	paths     int
}

const c13MaxPaths = 64

// run evaluates fi on private copies of recv/args. A branch whose condition the
// evaluator cannot compute forks: both arms are evaluated (each path re-evaluates
// the function from the start with the earlier decisions replayed, at most
// c13MaxPaths paths). The run is decided iff everything the rules observe — bytes
// written to the child, events posted, the decided mode flags / pastePending of the
// receiver, a would-be panic — is the same on every path; unknown values stored to
// other fields do not matter.
func (x *c13Env) run(fi *FuncInfo, recv c13V, args ...c13V) (res c13Res) {
	queue := [][]bool{nil}
	var firstDigest string
	have := false
	for len(queue) > 0 {
		forced := queue[len(queue)-1]
		queue = queue[:len(queue)-1]
		res.paths++
		if res.paths > c13MaxPaths {
			return c13Res{paths: res.paths, undecided: fmt.Sprintf("more than %d paths through conditions the evaluator cannot compute (first: %s)", c13MaxPaths, x.m.firstUnknown)}
		}
		memo := map[any]any{}
		r2 := c13Clone(recv, memo)
		a2 := make([]c13V, len(args))
		for i := range args {
			a2[i] = c13Clone(args[i], memo)
		}
		out := x.runPath(fi, r2, a2, forced)
		queue = append(queue, x.m.pending...)
		if out.undecided != "" {
			out.paths = res.paths
			return out
		}
		d := out.panicked + "|" + out.writes + "|" + x.render(c13V{k: c13Slice, el: out.events}, 0) + "|" + x.observe(out.recv)
		if !have {
			have, firstDigest = true, d
			paths := res.paths
			res = out
			res.paths = paths
		} else if d != firstDigest {
			return c13Res{paths: res.paths, undecided: fmt.Sprintf("the observed outcome depends on a condition the evaluator cannot compute: %s (one path gives %s, another %s)", x.m.firstUnknown, c13Clip(firstDigest), c13Clip(d))}
		} else {
			// same observed outcome: what is NOT observed may still differ between the paths; the
			// receiver handed on to a following step keeps only what all paths agree on
			x.mergeRecv(res.recv.st, out.recv.st, 0)
		}
	}
	return res
}

// mergeRecv makes every field of a that b does not hold with the same value unknown (recursively
// through struct values). A field absent from a non-opaque object holds its zero value.
func (x *c13Env) mergeRecv(a, b *c13Obj, depth int) {
	if a == nil || b == nil || a == b || depth > 4 {
		return
	}
	val := func(o *c13Obj, n string) c13V {
		if s := o.f[n]; s != nil {
			return *s
		}
		if o.opaque {
			return c13unk("field %s is not modelled", n)
		}
		if o.typ != nil {
			if st, ok := o.typ.Underlying().(*types.Struct); ok {
				for i := 0; i < st.NumFields(); i++ {
					if st.Field(i).Name() == n {
						return x.m.zero(st.Field(i).Type())
					}
				}
			}
		}
		return c13unk("field %s", n)
	}
	names := map[string]bool{}
	for n := range a.f {
		names[n] = true
	}
	for n := range b.f {
		names[n] = true
	}
	for n := range names {
		av, bv := val(a, n), val(b, n)
		if x.render(av, 0) == x.render(bv, 0) {
			continue
		}
		if av.k == c13Struct && bv.k == c13Struct && av.st != nil && bv.st != nil {
			if a.f[n] == nil {
				a.f[n] = &av
			}
			x.mergeRecv(a.f[n].st, bv.st, depth+1)
			continue
		}
		u := c13unk("field %s differs between the paths of a forked evaluation", n)
		a.f[n] = &u
	}
}

func c13Clip(s string) string {
	if len(s) > 160 {
		return fmt.Sprintf("%q…", s[:160])
	}
	return fmt.Sprintf("%q", s)
}

func (x *c13Env) runPath(fi *FuncInfo, recv c13V, args []c13V, forced []bool) (res c13Res) {
	m := x.m
	m.writes, m.events, m.steps, m.depth = nil, nil, 0, 0
	m.forced, m.taken, m.pending = forced, nil, nil
	if len(forced) == 0 {
		m.firstUnknown = ""
	}
	defer func() {
		if r := recover(); r != nil {
			switch e := r.(type) {
			case c13Abort:
				res.undecided = e.msg
			case c13Panic:
				res.panicked = e.msg
			default:
				panic(r)
			}
		}
		res.writes = strings.Join(m.writes, "")
		res.events = m.events
		res.recv = recv
	}()
	m.callDecl(fi, &recv, args, fi.Decl)
	return
}

// observe renders the part of the receiver's state the rules look at.
func (x *c13Env) observe(recv c13V) string {
	if recv.st == nil {
		return ""
	}
	var sb strings.Builder
	if md := recv.st.f["mode"]; md != nil && md.st != nil {
		for _, f := range c13Flags {
			sb.WriteString(f + "=")
			if s := md.st.f[f]; s != nil {
				sb.WriteString(x.render(*s, 0))
			}
			sb.WriteString(";")
		}
	}
	for _, f := range []string{"pastePending", "reqCursorPos"} {
		if s := recv.st.f[f]; s != nil {
			sb.WriteString(f + "=" + x.render(*s, 0) + ";")
		}
	}
	if recv.st.typ != nil && types.Identical(recv.st.typ, x.modelT) {
		for _, f := range x.aux {
			sb.WriteString(f + "=")
			if s := recv.st.f[f]; s != nil {
				sb.WriteString(x.render(*s, 0))
			} else {
				sb.WriteString("?")
			}
			sb.WriteString(";")
		}
	}
	return sb.String()
}

// render is a canonical text form of a value (unknown parts are "?").
func (x *c13Env) render(v c13V, depth int) string {
	if depth > 6 {
		return "…"
	}
	switch v.k {
	case c13Int:
		return fmt.Sprint(v.i)
	case c13Bool:
		return fmt.Sprint(v.b)
	case c13Str:
		return fmt.Sprintf("%q", v.s)
	case c13Nil:
		return "nil"
	case c13Slice:
		p := make([]string, len(v.el))
		for i := range v.el {
			p[i] = x.render(v.el[i], depth+1)
		}
		return "[" + strings.Join(p, ",") + "]"
	case c13Struct, c13Ptr:
		if v.st == nil {
			return "ptr"
		}
		names := make([]string, 0, len(v.st.f))
		for n := range v.st.f {
			names = append(names, n)
		}
		sort.Strings(names)
		p := []string{}
		for _, n := range names {
			p = append(p, n+":"+x.render(*v.st.f[n], depth+1))
		}
		t := ""
		if v.st.typ != nil {
			t = v.st.typ.String()
		}
		return t + "{" + strings.Join(p, ",") + "}"
	case c13Buf:
		if v.buf != nil {
			return fmt.Sprintf("buf(%q)", v.buf.String())
		}
	case c13Sink:
		return "pty"
	case c13Chan:
		return "queue"
	}
	return "?"
}

// c13Clone copies a value together with everything reachable from it (pointer
// targets included), preserving sharing inside one clone operation.
func c13Clone(v c13V, memo map[any]any) c13V {
	if v.st != nil {
		if n, ok := memo[v.st]; ok {
			v.st = n.(*c13Obj)
		} else {
			n := &c13Obj{typ: v.st.typ, opaque: v.st.opaque, f: map[string]*c13V{}}
			memo[v.st] = n
			for k, fv := range v.st.f {
				if ns, ok := memo[fv]; ok {
					n.f[k] = ns.(*c13V)
					continue
				}
				ns := new(c13V)
				memo[fv] = ns
				*ns = c13Clone(*fv, memo)
				n.f[k] = ns
			}
			v.st = n
		}
	}
	if v.loc != nil {
		if ns, ok := memo[v.loc]; ok {
			v.loc = ns.(*c13V)
		} else {
			ns := new(c13V)
			memo[v.loc] = ns
			*ns = c13Clone(*v.loc, memo)
			v.loc = ns
		}
	}
	if v.el != nil {
		el := make([]c13V, len(v.el))
		for i := range v.el {
			el[i] = c13Clone(v.el[i], memo)
		}
		v.el = el
	}
	if v.buf != nil {
		b := &strings.Builder{}
		b.WriteString(v.buf.String())
		v.buf = b
	}
	return v
}

// ------------------------------------------------------------------ reference tokeniser

type c13Tok struct {
	kind   string // SS3 CSI ESC C0 Print
	r      rune
	inter  []rune
	params [][]int
	raw    string
}

func (t c13Tok) String() string {
	switch t.kind {
	case "CSI":
		return fmt.Sprintf("CSI %q %v %q", string(t.inter), t.params, t.r)
	case "C0":
		return fmt.Sprintf("C0 0x%02X", t.r)
	}
	return fmt.Sprintf("%s %q", t.kind, t.r)
}

func c13Tokenize(s string) ([]c13Tok, string) {
	rs := []rune(s)
	var out []c13Tok
	for i := 0; i < len(rs); {
		r := rs[i]
		switch {
		case r == 0x1b:
			if i+1 >= len(rs) {
				out = append(out, c13Tok{kind: "C0", r: 0x1b, raw: "\x1b"})
				i++
				continue
			}
			n := rs[i+1]
			switch {
			case n == 'O':
				if i+2 >= len(rs) {
					return out, "truncated SS3"
				}
				f := rs[i+2]
				if f < 0x20 || f == 0x7f {
					return out, "control byte inside SS3"
				}
				out = append(out, c13Tok{kind: "SS3", r: f, raw: string(rs[i : i+3])})
				i += 3
			case n == '[':
				j := i + 2
				t := c13Tok{kind: "CSI"}
				if j < len(rs) && rs[j] >= 0x3c && rs[j] <= 0x3f {
					t.inter = append(t.inter, rs[j])
					j++
				}
				ps := j
				for j < len(rs) && rs[j] >= 0x30 && rs[j] <= 0x3b {
					j++
				}
				pstr := string(rs[ps:j])
				for j < len(rs) && rs[j] >= 0x20 && rs[j] <= 0x2f {
					t.inter = append(t.inter, rs[j])
					j++
				}
				if j >= len(rs) || rs[j] < 0x40 || rs[j] > 0x7e {
					return out, fmt.Sprintf("malformed CSI %q", string(rs[i:]))
				}
				t.r = rs[j]
				if pstr != "" {
					var cur []int
					v := 0
					for _, ch := range pstr {
						switch ch {
						case ';':
							cur = append(cur, v)
							t.params = append(t.params, cur)
							cur, v = nil, 0
						case ':':
							cur = append(cur, v)
							v = 0
						default:
							v = v*10 + int(ch-'0')
						}
					}
					cur = append(cur, v)
					t.params = append(t.params, cur)
				}
				t.raw = string(rs[i : j+1])
				out = append(out, t)
				i = j + 1
			case n == ']' || n == 'P' || n == 'X' || n == '^' || n == '_':
				return out, fmt.Sprintf("string sequence introducer ESC %c", n)
			case n >= 0x20 && n <= 0x2f:
				j := i + 1
				t := c13Tok{kind: "ESC"}
				for j < len(rs) && rs[j] >= 0x20 && rs[j] <= 0x2f {
					t.inter = append(t.inter, rs[j])
					j++
				}
				if j >= len(rs) || rs[j] < 0x30 || rs[j] > 0x7e {
					return out, "malformed ESC sequence"
				}
				t.r = rs[j]
				t.raw = string(rs[i : j+1])
				out = append(out, t)
				i = j + 1
			case n >= 0x30 && n <= 0x7f:
				out = append(out, c13Tok{kind: "ESC", r: n, raw: string(rs[i : i+2])})
				i += 2
			default:
				return out, fmt.Sprintf("ESC followed by 0x%02X", n)
			}
		case r < 0x20:
			out = append(out, c13Tok{kind: "C0", r: r, raw: string(r)})
			i++
		default:
			if r >= 0x80 && i+1 < len(rs) && rs[i+1] >= 0x80 {
				return out, "multi-rune text (grapheme clustering is not modelled)"
			}
			out = append(out, c13Tok{kind: "Print", r: r, raw: string(r)})
			i++
		}
	}
	return out, ""
}

func (x *c13Env) seqV(t c13Tok) c13V {
	runeT := types.Typ[types.Int32]
	runes := func(rs []rune) c13V {
		v := c13V{k: c13Slice, typ: types.NewSlice(runeT)}
		for _, r := range rs {
			v.el = append(v.el, c13int(int64(r), runeT))
		}
		return v
	}
	switch t.kind {
	case "SS3":
		return c13V{k: c13Int, i: int64(t.r), typ: x.typ(x.ansi, "SS3")}
	case "C0":
		return c13V{k: c13Int, i: int64(t.r), typ: x.typ(x.ansi, "C0")}
	case "ESC":
		return x.structV(x.typ(x.ansi, "ESC"), map[string]c13V{"Final": c13int(int64(t.r), runeT), "Intermediate": runes(t.inter)})
	case "CSI":
		intT := types.Typ[types.Int]
		ps := c13V{k: c13Slice, typ: types.NewSlice(types.NewSlice(intT))}
		for _, p := range t.params {
			sub := c13V{k: c13Slice, typ: types.NewSlice(intT), el: []c13V{}}
			for _, n := range p {
				sub.el = append(sub.el, c13int(int64(n), intT))
			}
			ps.el = append(ps.el, sub)
		}
		return x.structV(x.typ(x.ansi, "CSI"), map[string]c13V{"Final": c13int(int64(t.r), runeT), "Intermediate": runes(t.inter), "Parameters": ps})
	case "Print":
		return x.structV(x.typ(x.ansi, "Print"), map[string]c13V{"Grapheme": c13str(string(t.r)), "Width": c13unk("width")})
	}
	return c13unk("token")
}

// decode runs every token through Vaxis.handleSequence and returns the events posted.
func (x *c13Env) decode(bytes string) (evs []c13V, toks []c13Tok, undecided, bad string) {
	toks, terr := c13Tokenize(bytes)
	if terr != "" {
		return nil, toks, "", fmt.Sprintf("the bytes %q are not key/mouse/paste input the reference grammar accepts: %s", bytes, terr)
	}
	vx := x.vaxis()
	for _, t := range toks {
		r := x.run(x.fnHandle, vx, x.seqV(t))
		if r.recv.st != nil {
			vx = r.recv
		}
		if r.undecided != "" {
			return nil, toks, "decoding " + t.String() + ": " + r.undecided, ""
		}
		if r.panicked != "" {
			return nil, toks, "", "decoding " + t.String() + " panics: " + r.panicked
		}
		evs = append(evs, r.events...)
	}
	return evs, toks, "", ""
}

func (x *c13Env) evType(v c13V) string {
	if nt, ok := v.typ.(*types.Named); ok {
		return nt.Obj().Name()
	}
	return "?"
}

func (x *c13Env) intField(v c13V, name string) (int64, bool) {
	if v.k != c13Struct || v.st == nil {
		return 0, false
	}
	f := x.m.fieldOf(v.st, name, types.Typ[types.Int])
	if f.k != c13Int {
		return 0, false
	}
	return f.i, true
}

func (x *c13Env) modString(mods int64) string {
	var p []string
	for _, n := range []string{"Shift", "Alt", "Ctrl"} {
		if mods&x.consts["Mod"+n] != 0 {
			p = append(p, n)
		}
	}
	if rest := mods &^ (x.consts["ModShift"] | x.consts["ModAlt"] | x.consts["ModCtrl"]); rest != 0 {
		p = append(p, fmt.Sprintf("0x%x", rest))
	}
	if len(p) == 0 {
		return "none"
	}
	return strings.Join(p, "+")
}

func (x *c13Env) kname(code int64) string {
	if n, ok := x.keyName[code]; ok {
		return n
	}
	if code >= 0x20 && code < 0x7f {
		return fmt.Sprintf("%q", rune(code))
	}
	return fmt.Sprintf("0x%X", code)
}

func c13FlagString(f map[string]bool) string {
	var p []string
	for _, n := range c13Flags {
		if f[n] {
			p = append(p, n)
		}
	}
	if len(p) == 0 {
		return "{}"
	}
	return "{" + strings.Join(p, ",") + "}"
}

// verdict accumulates the outcome of one obligation over several configurations.
type c13Verdict struct {
	bad, und []string
	n        int
}

func (v *c13Verdict) fail(format string, a ...any) { v.bad = append(v.bad, fmt.Sprintf(format, a...)) }
func (v *c13Verdict) unk(format string, a ...any)  { v.und = append(v.und, fmt.Sprintf(format, a...)) }

func (x *c13Env) emit(rule, key string, fi *FuncInfo, v *c13Verdict, okMsg string) {
	pos := fi.Decl.Pos()
	clip := func(l []string) string {
		if len(l) > 4 {
			return strings.Join(l[:4], " ; ") + fmt.Sprintf(" ; … (%d configurations)", len(l))
		}
		return strings.Join(l, " ; ")
	}
	switch {
	case len(v.und) > 0:
		x.c.undecided(rule, key, pos, "%s", clip(v.und))
	case len(v.bad) > 0:
		x.c.bad(rule, key, pos, "%s", clip(v.bad))
	default:
		x.c.ok(rule, key, pos, "%s (%d configurations evaluated)", okMsg, v.n)
	}
}

// sendKey evaluates Update(Key) and decodes what was written.
func (x *c13Env) sendKey(flags map[string]bool, code, mods int64) (bytes string, toks []c13Tok, evs []c13V, und, bad string) {
	r := x.run(x.fnUpdate, x.model(flags), x.keyEv(code, mods))
	if r.undecided != "" {
		return "", nil, nil, r.undecided, ""
	}
	if r.panicked != "" {
		return "", nil, nil, "", "Update panics: " + r.panicked
	}
	evs, toks, und, bad = x.decode(r.writes)
	return r.writes, toks, evs, und, bad
}

// ------------------------------------------------------------------ C13.a

func (x *c13Env) refKeys() []int64 {
	names := []string{"KeyUp", "KeyDown", "KeyRight", "KeyLeft", "KeyHome", "KeyEnd", "KeyInsert", "KeyDelete", "KeyPgUp", "KeyPgDown"}
	for i := 1; i <= 12; i++ {
		names = append(names, fmt.Sprintf("KeyF%02d", i))
	}
	var out []int64
	for _, n := range names {
		out = append(out, x.consts[n])
	}
	return out
}

func (x *c13Env) checkKey(v *c13Verdict, flags map[string]bool, code, mods int64, accept func(k, m int64) bool, want string) {
	v.n++
	cfg := c13FlagString(flags)
	bytes, toks, evs, und, bad := x.sendKey(flags, code, mods)
	switch {
	case und != "":
		v.unk("modes %s: %s", cfg, und)
	case bad != "":
		v.fail("modes %s: %s", cfg, bad)
	case bytes == "":
		v.fail("modes %s: nothing is written to the child (the key is dropped)", cfg)
	case len(toks) != 1:
		v.fail("modes %s: %q is %d sequences, not one", cfg, bytes, len(toks))
	case len(evs) != 1 || x.evType(evs[0]) != "Key":
		v.fail("modes %s: %q decodes to %d events (want one Key)", cfg, bytes, len(evs))
	default:
		k, ok1 := x.intField(evs[0], "Keycode")
		m, ok2 := x.intField(evs[0], "Modifiers")
		et, ok3 := x.intField(evs[0], "EventType")
		if !ok1 || !ok2 || !ok3 {
			v.unk("modes %s: decoded key has fields the evaluator could not compute", cfg)
		} else if !accept(k, m) || et != x.consts["EventPress"] {
			v.fail("modes %s: written %q decodes to %s mods %s (event type %d), want %s", cfg, bytes, x.kname(k), x.modString(m), et, want)
		}
	}
}

func (x *c13Env) ruleA() {
	sh, al, ct := x.consts["ModShift"], x.consts["ModAlt"], x.consts["ModCtrl"]
	ref := x.refKeys()
	inRef := map[int64]bool{}
	for _, k := range ref {
		inRef[k] = true
	}
	for _, code := range ref {
		for sub := 0; sub < 8; sub++ {
			var mods int64
			if sub&1 != 0 {
				mods |= sh
			}
			if sub&2 != 0 {
				mods |= al
			}
			if sub&4 != 0 {
				mods |= ct
			}
			v := &c13Verdict{}
			for cfg := 0; cfg < 4; cfg++ {
				flags := map[string]bool{"deckpam": cfg&1 != 0, "decckm": cfg&2 != 0}
				code, mods := code, mods
				x.checkKey(v, flags, code, mods, func(k, m int64) bool { return k == code && m == mods },
					x.kname(code)+" mods "+x.modString(mods))
			}
			x.emit("C13.a", fmt.Sprintf("term.(*Model).Update/%s mods=%s round trip", x.kname(code), x.modString(mods)), x.fnUpdate, v,
				"written bytes decode to the same key and modifiers")
		}
	}
	// keys beyond the legacy set that the encoder's tables know: xterm convention
	extra := map[int64]bool{}
	for obj, gv := range x.m.globals {
		if obj.Pkg() != x.term || gv.k != c13Map || gv.m == nil {
			continue
		}
		for _, k := range gv.m.keys {
			if k.k == c13Int && k.i > unicode.MaxRune && !inRef[k.i] {
				extra[k.i] = true
			}
		}
	}
	var extras []int64
	for k := range extra {
		extras = append(extras, k)
	}
	sort.Slice(extras, func(i, j int) bool { return extras[i] < extras[j] })
	bands := map[int]int64{1: sh, 2: ct, 3: sh | ct, 4: al, 5: al | sh}
	for _, code := range extras {
		code := code
		name := x.kname(code)
		var n int
		altK, altM := int64(-1), int64(0)
		if _, err := fmt.Sscanf(name, "KeyF%d", &n); err == nil && n > 12 {
			if bm, ok := bands[(n-1)/12]; ok {
				altK, altM = x.consts[fmt.Sprintf("KeyF%02d", (n-1)%12+1)], bm
			}
		}
		want := name
		if altK >= 0 {
			want += " or " + x.kname(altK) + " mods " + x.modString(altM) + " (xterm convention)"
		}
		v := &c13Verdict{}
		for cfg := 0; cfg < 4; cfg++ {
			flags := map[string]bool{"deckpam": cfg&1 != 0, "decckm": cfg&2 != 0}
			x.checkKey(v, flags, code, 0, func(k, m int64) bool {
				return (k == code && m == 0) || (altK >= 0 && k == altK && m == altM)
			}, want)
		}
		x.emit("C13.a", fmt.Sprintf("term.(*Model).Update/%s (table key beyond the legacy set)", name), x.fnUpdate, v,
			"decodes to the key itself or to its xterm-convention chord")
	}
	// the tables consulted are constants (the evaluator aborts otherwise; recorded for the count)
	var tabs []string
	for obj := range x.m.tables {
		tabs = append(tabs, shortPkg(obj.Pkg().Path())+"."+obj.Name())
	}
	sort.Strings(tabs)
	for _, t := range tabs {
		x.c.ok("C13.a", "table "+t+" is only read", 0, "every use in its package is an index/range/len read")
	}
}

// ------------------------------------------------------------------ C13.b

func (x *c13Env) ruleB() {
	for _, n := range []string{"KeyUp", "KeyDown", "KeyRight", "KeyLeft", "KeyHome", "KeyEnd"} {
		code := x.consts[n]
		v := &c13Verdict{}
		for cfg := 0; cfg < 4; cfg++ {
			flags := map[string]bool{"deckpam": cfg&1 != 0, "decckm": cfg&2 != 0}
			v.n++
			bytes, toks, _, und, bad := x.sendKey(flags, code, 0)
			want := "CSI"
			if flags["decckm"] {
				want = "SS3"
			}
			switch {
			case und != "":
				v.unk("modes %s: %s", c13FlagString(flags), und)
			case bad != "":
				v.fail("modes %s: %s", c13FlagString(flags), bad)
			case len(toks) != 1 || toks[0].kind != want:
				v.fail("modes %s: written %q, want the %s form", c13FlagString(flags), bytes, want)
			case want == "CSI" && len(toks[0].params) != 0:
				v.fail("modes %s: written %q carries parameters; the normal-mode cursor key is CSI <final>", c13FlagString(flags), bytes)
			}
		}
		x.emit("C13.b", "term.(*Model).Update/"+n+" unmodified: SS3 iff DECCKM", x.fnUpdate, v, "application mode selects ESC O x, normal mode ESC [ x")
	}
	for _, w := range []struct{ btn, key string }{{"MouseWheelUp", "KeyUp"}, {"MouseWheelDown", "KeyDown"}} {
		v := &c13Verdict{}
		for cfg := 0; cfg < 4; cfg++ {
			flags := map[string]bool{"deckpam": cfg&1 != 0, "decckm": cfg&2 != 0, "altScroll": true, "smcup": true}
			v.n++
			cs := c13FlagString(flags)
			r := x.run(x.fnUpdate, x.model(flags), x.mouseEv(x.consts[w.btn], 3, 4, x.consts["EventPress"]))
			kbytes, _, _, und, bad := x.sendKey(flags, x.consts[w.key], 0)
			switch {
			case r.undecided != "" || und != "":
				v.unk("modes %s: %s%s", cs, r.undecided, und)
			case r.panicked != "" || bad != "":
				v.fail("modes %s: %s%s", cs, r.panicked, bad)
			case r.writes == "":
				// alternate scroll not translating at all is allowed by the property (nothing the child must receive)
			case kbytes == "" || strings.Repeat(kbytes, len(r.writes)/len(kbytes)) != r.writes:
				v.fail("modes %s: the wheel is translated to %q but the %s key itself is sent as %q in these modes (the child's cursor-key mode must select the encoding)", cs, r.writes, w.key, kbytes)
			}
		}
		x.emit("C13.b", "term.(*Model).Update/alternate scroll "+w.btn+" sends the "+w.key+" encoding of the child's DECCKM mode", x.fnUpdate, v,
			"wheel arrows are repetitions of the arrow key's own encoding")
	}
}

// ------------------------------------------------------------------ C13.c

func (x *c13Env) ruleC() {
	type cls struct {
		btn string
		et  string
	}
	var cases []cls
	for _, b := range []string{"MouseLeftButton", "MouseMiddleButton", "MouseRightButton", "MouseWheelUp", "MouseWheelDown", "MouseButton8", "MouseButton9", "MouseButton10", "MouseButton11"} {
		if _, ok := x.consts[b]; ok {
			cases = append(cases, cls{b, "EventPress"})
		}
	}
	for _, b := range []string{"MouseLeftButton", "MouseMiddleButton", "MouseRightButton", "MouseButton8", "MouseButton9"} {
		if _, ok := x.consts[b]; ok {
			cases = append(cases, cls{b, "EventRelease"})
		}
	}
	for _, b := range []string{"MouseLeftButton", "MouseMiddleButton", "MouseRightButton", "MouseNoButton"} {
		cases = append(cases, cls{b, "EventMotion"})
	}
	positions := [][2]int64{{0, 0}, {5, 7}, {7, 5}, {222, 94}}
	for _, cs := range cases {
		v := &c13Verdict{}
		flags := map[string]bool{"mouseButtons": true, "mouseDrag": true, "mouseMotion": true, "mouseSGR": true}
		for _, p := range positions {
			v.n++
			btn, et := x.consts[cs.btn], x.consts[cs.et]
			r := x.run(x.fnUpdate, x.model(flags), x.mouseEv(btn, p[0], p[1], et))
			at := fmt.Sprintf("col %d row %d", p[0], p[1])
			if r.undecided != "" {
				v.unk("%s: %s", at, r.undecided)
				continue
			}
			if r.panicked != "" {
				v.fail("%s: Update panics: %s", at, r.panicked)
				continue
			}
			evs, toks, und, bad := x.decode(r.writes)
			switch {
			case und != "":
				v.unk("%s: %s", at, und)
			case bad != "":
				v.fail("%s: %s", at, bad)
			case len(toks) != 1 || toks[0].kind != "CSI":
				v.fail("%s: written %q is not one CSI sequence", at, r.writes)
			case len(evs) != 1 || x.evType(evs[0]) != "Mouse":
				v.fail("%s: written %q decodes to %d events (want one Mouse)", at, r.writes, len(evs))
			default:
				gb, o1 := x.intField(evs[0], "Button")
				gc, o2 := x.intField(evs[0], "Col")
				gr, o3 := x.intField(evs[0], "Row")
				ge, o4 := x.intField(evs[0], "EventType")
				if !(o1 && o2 && o3 && o4) {
					v.unk("%s: decoded mouse event has fields the evaluator could not compute", at)
				} else if gb != btn || gc != p[0] || gr != p[1] || ge != et {
					v.fail("%s: written %q decodes to button %d col %d row %d type %d, want button %d col %d row %d type %d", at, r.writes, gb, gc, gr, ge, btn, p[0], p[1], et)
				}
			}
		}
		x.emit("C13.c", fmt.Sprintf("term.(*Model).Update/SGR mouse %s %s round trip", cs.btn, cs.et), x.fnUpdate, v,
			"button, column, row and event type survive")
	}
}

// ------------------------------------------------------------------ C13.d

func (x *c13Env) ruleD() {
	press, release, motion := x.consts["EventPress"], x.consts["EventRelease"], x.consts["EventMotion"]
	type cls struct {
		name    string
		btn, et int64
		enabled func(f map[string]bool) bool
		need    string
		arrow   string // alternate-scroll exception: the key the wheel may be translated to
	}
	rep := func(f map[string]bool) bool { return f["mouseButtons"] || f["mouseDrag"] || f["mouseMotion"] }
	classes := []cls{
		{"press (left button)", x.consts["MouseLeftButton"], press, rep, "1000, 1002 or 1003", ""},
		{"release (left button)", x.consts["MouseLeftButton"], release, rep, "1000, 1002 or 1003", ""},
		{"wheel up", x.consts["MouseWheelUp"], press, rep, "1000, 1002 or 1003", "KeyUp"},
		{"wheel down", x.consts["MouseWheelDown"], press, rep, "1000, 1002 or 1003", "KeyDown"},
		{"drag (motion, left button held)", x.consts["MouseLeftButton"], motion, func(f map[string]bool) bool { return f["mouseDrag"] || f["mouseMotion"] }, "1002 or 1003", ""},
		{"motion (no button)", x.consts["MouseNoButton"], motion, func(f map[string]bool) bool { return f["mouseMotion"] }, "1003", ""},
	}
	mflags := []string{"mouseButtons", "mouseDrag", "mouseMotion", "mouseSGR", "altScroll", "smcup"}
	for _, cl := range classes {
		excess, drop := &c13Verdict{}, &c13Verdict{}
		for bits := 0; bits < 1<<len(mflags); bits++ {
			flags := map[string]bool{}
			for i, f := range mflags {
				flags[f] = bits&(1<<i) != 0
			}
			cs := c13FlagString(flags)
			r := x.run(x.fnUpdate, x.model(flags), x.mouseEv(cl.btn, 2, 9, cl.et))
			en := cl.enabled(flags)
			tgt := excess
			if en {
				tgt = drop
			}
			tgt.n++
			if r.undecided != "" {
				tgt.unk("modes %s: %s", cs, r.undecided)
				continue
			}
			if r.panicked != "" {
				tgt.fail("modes %s: Update panics: %s", cs, r.panicked)
				continue
			}
			if en {
				switch {
				case r.writes == "":
					drop.fail("modes %s: nothing is written although the child enabled this event", cs)
				case flags["mouseSGR"]:
					toks, terr := c13Tokenize(r.writes)
					if terr != "" || len(toks) != 1 || toks[0].kind != "CSI" || string(toks[0].inter) != "<" || (toks[0].r != 'M' && toks[0].r != 'm') {
						drop.fail("modes %s: written %q is not one SGR mouse report", cs, r.writes)
					}
				default:
					if !strings.HasPrefix(r.writes, "\x1b[M") {
						drop.fail("modes %s: written %q is not an X10 mouse report", cs, r.writes)
					}
				}
				continue
			}
			if r.writes == "" {
				continue
			}
			if cl.arrow != "" && !rep(flags) && flags["altScroll"] && flags["smcup"] {
				// listed exception: alternate scroll in the alternate screen sends cursor keys
				evs, _, und, bad := x.decode(r.writes)
				okArrows := und == "" && bad == "" && len(evs) > 0
				for _, e := range evs {
					k, ok := x.intField(e, "Keycode")
					mm, ok2 := x.intField(e, "Modifiers")
					if x.evType(e) != "Key" || !ok || !ok2 || k != x.consts[cl.arrow] || mm != 0 {
						okArrows = false
					}
				}
				if und != "" {
					excess.unk("modes %s: %s", cs, und)
				} else if !okArrows {
					excess.fail("modes %s: alternate scroll wrote %q, which does not decode to %s keys %s", cs, r.writes, cl.arrow, bad)
				}
				continue
			}
			excess.fail("modes %s: %q is written although the child enabled none of %s", cs, r.writes, cl.need)
		}
		x.emit("C13.d", "term.(*Model).Update/mouse "+cl.name+": nothing written unless the child set "+cl.need, x.fnUpdate, excess,
			"silent in every mode combination that does not enable the event (alternate scroll excepted)")
		x.emit("C13.d", "term.(*Model).Update/mouse "+cl.name+": reported whenever the child set "+cl.need, x.fnUpdate, drop,
			"a report is written in every mode combination that enables the event")
	}
	// paste brackets
	for _, pe := range []struct{ typ, what string }{{"PasteStartEvent", "paste start"}, {"PasteEndEvent", "paste end"}} {
		excess, arrive := &c13Verdict{}, &c13Verdict{}
		for _, others := range []bool{false, true} {
			for _, paste := range []bool{false, true} {
				flags := map[string]bool{}
				for _, f := range c13Flags {
					flags[f] = others
				}
				flags["paste"] = paste
				cs := c13FlagString(flags)
				ev := x.structV(x.typ(x.root, pe.typ), nil)
				// a widget as New() leaves it: state Update itself keeps between calls (a field the
				// outcome turns out to depend on) starts from its zero value; what such state does to
				// later pastes is decided over whole histories by C13.h
				r := x.runTracked(x.fnUpdate, func() c13V { return x.modelAux(flags) }, ev)
				tgt := excess
				if paste {
					tgt = arrive
				}
				tgt.n++
				if r.undecided != "" {
					tgt.unk("modes %s: %s", cs, r.undecided)
					continue
				}
				if r.panicked != "" {
					tgt.fail("modes %s: Update panics: %s", cs, r.panicked)
					continue
				}
				if !paste {
					if r.writes != "" {
						excess.fail("modes %s: %q is written although the child did not set 2004", cs, r.writes)
					}
					continue
				}
				evs, _, und, bad := x.decode(r.writes)
				switch {
				case und != "":
					arrive.unk("modes %s: %s", cs, und)
				case bad != "":
					arrive.fail("modes %s: %s", cs, bad)
				case r.writes == "":
					arrive.fail("modes %s: nothing is written although the child set 2004", cs)
				case len(evs) != 1 || x.evType(evs[0]) != pe.typ:
					got := []string{}
					for _, e := range evs {
						got = append(got, x.evType(e))
					}
					arrive.fail("modes %s: written %q decodes to %v, want one %s", cs, r.writes, got, pe.typ)
				}
			}
		}
		x.emit("C13.d", "term.(*Model).Update/"+pe.what+": nothing written unless the child set 2004", x.fnUpdate, excess, "silent without bracketed paste")
		x.emit("C13.d", "term.(*Model).Update/"+pe.what+": bracket written under 2004 decodes to "+pe.typ, x.fnUpdate, arrive, "the bracket arrives as the same event")
	}
}

// ------------------------------------------------------------------ C13.e

func (x *c13Env) ruleE() {
	type mode struct {
		n    int
		flag string
		also []string // flags that may change as a documented side effect
	}
	modes := []mode{{1, "decckm", nil}, {1000, "mouseButtons", nil}, {1002, "mouseDrag", nil}, {1003, "mouseMotion", nil},
		{1006, "mouseSGR", nil}, {1007, "altScroll", nil}, {1049, "smcup", []string{"altScroll"}}, {2004, "paste", nil}}
	check := func(key string, seq c13Tok, start bool, flag string, want bool, also []string) {
		v := &c13Verdict{n: 1}
		flags := map[string]bool{}
		for _, f := range c13Flags {
			flags[f] = start
		}
		mdl := x.model(flags)
		r := x.run(x.fnPty, mdl, x.seqV(seq))
		switch {
		case r.undecided != "":
			v.unk("%s", r.undecided)
		case r.panicked != "":
			v.fail("update panics: %s", r.panicked)
		default:
			got := x.flagsOf(r.recv)
			if g, ok := got[flag]; !ok || g != want {
				v.fail("after %s the flag %s is %v, want %v", seq.String(), flag, got[flag], want)
			}
			for _, f := range c13Flags {
				if f == flag {
					continue
				}
				side := false
				for _, a := range also {
					side = side || a == f
				}
				if g, ok := got[f]; (!ok || g != start) && !side {
					v.fail("after %s the unrelated flag %s changed to %v", seq.String(), f, got[f])
				}
			}
		}
		x.emit("C13.e", key, x.fnPty, v, "exactly the named flag changes")
	}
	for _, md := range modes {
		set := c13Tok{kind: "CSI", r: 'h', inter: []rune{'?'}, params: [][]int{{md.n}}}
		rst := c13Tok{kind: "CSI", r: 'l', inter: []rune{'?'}, params: [][]int{{md.n}}}
		check(fmt.Sprintf("term.(*Model).update/DECSET %d sets %s", md.n, md.flag), set, false, md.flag, true, md.also)
		check(fmt.Sprintf("term.(*Model).update/DECRST %d resets %s", md.n, md.flag), rst, true, md.flag, false, md.also)
	}
	check("term.(*Model).update/ESC = sets deckpam", c13Tok{kind: "ESC", r: '='}, false, "deckpam", true, nil)
	check("term.(*Model).update/ESC > resets deckpam", c13Tok{kind: "ESC", r: '>'}, true, "deckpam", false, nil)
}

// ------------------------------------------------------------------ C13.g

// ruleG: a compound private-mode sequence is the composition of its parameters. A `return`
// (or any other exit) from the per-parameter loop in the arm of one parameter silently drops
// the parameters after it, so the child's "disable mouse / paste" never reaches the flags and
// Update keeps writing reports the child turned off.
func (x *c13Env) ruleG() {
	decided := []struct {
		n    int
		flag string
	}{{1, "decckm"}, {1000, "mouseButtons"}, {1002, "mouseDrag"}, {1003, "mouseMotion"}, {1006, "mouseSGR"}, {1007, "altScroll"}, {1049, "smcup"}, {2004, "paste"}}
	const sentinel = 987654
	mk := func(final rune, ps ...int) c13Tok {
		t := c13Tok{kind: "CSI", r: final, inter: []rune{'?'}}
		for _, p := range ps {
			t.params = append(t.params, []int{p})
		}
		return t
	}
	for _, final := range []rune{'h', 'l'} {
		name := map[rune]string{'h': "DECSET", 'l': "DECRST"}[final]
		// the parameter alphabet of the handler
		x.m.probeOn, x.m.probeTag, x.m.probeCases = true, sentinel, map[int64]bool{}
		pr := x.run(x.fnPty, x.model(nil), x.seqV(mk(final, sentinel)))
		x.m.probeOn = false
		if pr.undecided != "" {
			x.c.undecided("C13.g", "term.(*Model).update/"+name+" of an unknown parameter", x.fnPty.Decl.Pos(), "%s", pr.undecided)
			continue
		}
		alpha := map[int]bool{sentinel: true}
		for v := range x.m.probeCases {
			alpha[int(v)] = true
		}
		for _, d := range decided {
			alpha[d.n] = true
		}
		var xs []int
		for v := range alpha {
			xs = append(xs, v)
		}
		sort.Ints(xs)
		for _, first := range xs {
			v := &c13Verdict{}
			label := fmt.Sprint(first)
			if first == sentinel {
				label = "<unknown number>"
			}
			for _, d := range decided {
				if d.n == first {
					continue
				}
				for _, othersSet := range []bool{false, true} {
					flags := map[string]bool{}
					for _, f := range c13Flags {
						flags[f] = othersSet
					}
					flags[d.flag] = final == 'l' // the flag b must change
					cs := fmt.Sprintf("%s;%d from %s", label, d.n, c13FlagString(flags))
					v.n++
					comp := x.run(x.fnPty, x.model(flags), x.seqV(mk(final, first, d.n)))
					s1 := x.run(x.fnPty, x.model(flags), x.seqV(mk(final, first)))
					if s1.undecided != "" || s1.panicked != "" {
						// the evaluator cannot follow this parameter on its own: outside the decided domain
						v.n--
						continue
					}
					s2 := x.run(x.fnPty, s1.recv, x.seqV(mk(final, d.n)))
					switch {
					case comp.undecided != "" || s2.undecided != "":
						v.unk("%s: %s%s", cs, comp.undecided, s2.undecided)
					case comp.panicked != "" || s2.panicked != "":
						v.fail("%s: update panics: %s%s", cs, comp.panicked, s2.panicked)
					default:
						want, got := x.observe(s2.recv), x.observe(comp.recv)
						wf, gf := x.flagsOf(s2.recv), x.flagsOf(comp.recv)
						if b, ok := wf[d.flag]; !ok || b != (final == 'h') {
							v.unk("%s: the single sequence CSI ? %d %c does not give a computable %s", cs, d.n, final, d.flag)
						} else if got != want {
							v.fail("CSI ? %s %c leaves %s=%v where CSI ? %s %c then CSI ? %d %c gives %v: a parameter after %s is not processed (compound: %s; one by one: %s)",
								strings.Replace(cs, " from ", " ", 1), final, d.flag, gf[d.flag], label, final, d.n, final, wf[d.flag], label, got, want)
						}
					}
				}
			}
			if v.n == 0 {
				x.c.info("C13.g: %s parameter %s is outside what the evaluator can follow on its own; not part of the compound-sequence domain", name, label)
				continue
			}
			x.emit("C13.g", fmt.Sprintf("term.(*Model).update/%s %s;<decided mode>: the parameter after it is processed", name, label), x.fnPty, v,
				"compound sequence = the parameters one by one on every decided flag")
		}
	}
}

// ------------------------------------------------------------------ C13.f

func (x *c13Env) ruleF() {
	for _, n := range []string{"KeyEnter", "KeyTab", "KeyEsc", "KeyBackspace"} {
		if _, ok := x.consts[n]; !ok {
			x.c.undecided("C13.f", "setup/"+n, 0, "constant vaxis.%s not found", n)
			return
		}
	}
	sh, al, ct := x.consts["ModShift"], x.consts["ModAlt"], x.consts["ModCtrl"]
	keyT := x.typ(x.root, "Key")
	one := func(label string, ev c13V, code, mods int64, text string, alt ...int64) {
		v := &c13Verdict{}
		for cfg := 0; cfg < 4; cfg++ {
			flags := map[string]bool{"deckpam": cfg&1 != 0, "decckm": cfg&2 != 0}
			v.n++
			cs := c13FlagString(flags)
			r := x.run(x.fnUpdate, x.model(flags), ev)
			if r.undecided != "" {
				v.unk("modes %s: %s", cs, r.undecided)
				continue
			}
			if r.panicked != "" {
				v.fail("modes %s: Update panics: %s", cs, r.panicked)
				continue
			}
			evs, toks, und, bad := x.decode(r.writes)
			switch {
			case und != "":
				v.unk("modes %s: %s", cs, und)
			case bad != "":
				v.fail("modes %s: %s", cs, bad)
			case r.writes == "":
				v.fail("modes %s: nothing is written to the child (the key is dropped)", cs)
			case len(toks) != 1 || len(evs) != 1 || x.evType(evs[0]) != "Key":
				v.fail("modes %s: written %q is %d sequences / %d events, want one key", cs, r.writes, len(toks), len(evs))
			default:
				k, ok1 := x.intField(evs[0], "Keycode")
				m, ok2 := x.intField(evs[0], "Modifiers")
				tx := x.m.fieldOf(evs[0].st, "Text", types.Typ[types.String])
				if !ok1 || !ok2 || (text != "" && tx.k != c13Str) {
					v.unk("modes %s: decoded key has fields the evaluator could not compute", cs)
				} else if len(alt) == 2 && k == alt[0] && m == alt[1] {
					// the legacy form of the same chord (Shift folded into the capital after ESC)
				} else if k != code || m != mods || (text != "" && tx.s != text) {
					v.fail("modes %s: written %q decodes to %s mods %s text %q, want %s mods %s text %q", cs, r.writes, x.kname(k), x.modString(m), tx.s, x.kname(code), x.modString(mods), text)
				}
			}
		}
		x.emit("C13.f", "term.(*Model).Update/"+label+" round trip", x.fnUpdate, v, "written bytes decode to the same chord")
	}
	for _, n := range []string{"KeyEnter", "KeyTab", "KeyEsc", "KeyBackspace"} {
		one(n, x.keyEv(x.consts[n], 0), x.consts[n], 0, "")
	}
	for r := rune(0x20); r < 0x7f; r++ {
		if unicode.IsUpper(r) {
			lo := int64(unicode.ToLower(r))
			ev := x.structV(keyT, map[string]c13V{"Keycode": {k: c13Int, i: lo}, "ShiftedCode": {k: c13Int, i: int64(r)},
				"Modifiers": {k: c13Int, i: sh}, "Text": c13str(string(r))})
			one(fmt.Sprintf("Shift+%c (text %q)", unicode.ToLower(r), string(r)), ev, lo, sh, string(r))
			continue
		}
		ev := x.structV(keyT, map[string]c13V{"Keycode": {k: c13Int, i: int64(r)}, "Modifiers": {k: c13Int, i: 0}, "Text": c13str(string(r))})
		one(fmt.Sprintf("plain %q", string(r)), ev, int64(r), 0, string(r))
	}
	for r := 'a'; r <= 'z'; r++ {
		if r != 'h' && r != 'i' && r != 'm' {
			one(fmt.Sprintf("Ctrl+%c", r), x.keyEv(int64(r), ct), int64(r), ct, "")
		}
		one(fmt.Sprintf("Alt+%c", r), x.keyEv(int64(r), al), int64(r), al, "")
	}
	for r := '0'; r <= '9'; r++ {
		one(fmt.Sprintf("Alt+%c", r), x.keyEv(int64(r), al), int64(r), al, "")
	}
	// the same chords as a host with "report associated text" delivers them: Key.Text is set
	// (to the printable rune, to the shifted rune for Shift chords). The text must not make the
	// encoder forget a modifier.
	withText := func(code, shifted, mods int64, text string) c13V {
		f := map[string]c13V{"Keycode": {k: c13Int, i: code}, "Modifiers": {k: c13Int, i: mods}, "Text": c13str(text)}
		if shifted != 0 {
			f["ShiftedCode"] = c13V{k: c13Int, i: shifted}
		}
		return x.structV(keyT, f)
	}
	for r := 'a'; r <= 'z'; r++ {
		up := unicode.ToUpper(r)
		if r != 'h' && r != 'i' && r != 'm' {
			one(fmt.Sprintf("Ctrl+%c with text %q", r, string(r)), withText(int64(r), 0, ct, string(r)), int64(r), ct, "")
		}
		one(fmt.Sprintf("Alt+%c with text %q", r, string(r)), withText(int64(r), 0, al, string(r)), int64(r), al, "")
		// ESC O / ESC P / ESC X introduce SS3 / DCS / SOS: Alt+Shift+o/p/x has no unambiguous legacy form
		if r != 'o' && r != 'p' && r != 'x' {
			one(fmt.Sprintf("Alt+Shift+%c with text %q", r, string(up)), withText(int64(r), int64(up), al|sh, string(up)), int64(r), al|sh, "", int64(up), al)
		}
	}
	for r := '0'; r <= '9'; r++ {
		one(fmt.Sprintf("Alt+%c with text %q", r, string(r)), withText(int64(r), 0, al, string(r)), int64(r), al, "")
	}
}
