package main

// C19 — lists and pagers.
//
// Decided clauses (each one an obligation per construct):
//   a  widgets/list: every store to List.index / List.offset keeps it >= 0 (interval analysis with the
//      package's own min/max helpers summarised, one dominating guard may be used once); every store to
//      List.index keeps it <= max(0, len(items)-1); a store to List.items is paired with such a store;
//      the slice items[offset:] in Draw is reached only with offset <= index (hence <= len(items))
//   e  widgets/list: at the draw loop offset <= index < offset+height (the viewport follows the selection)
//   b  widgets/pager: Layout is a typestate machine over its pending line (fresh / dirty / flushed): no
//      dirty line at return, none overwritten, none stored twice, no append to a stored line; lines reset
//      before the first flush; the column counter restarts after every flush; a line is full when
//      col >= width; Draw reaches its draw loop only with 0 <= Offset and Offset clamped to the content,
//      with the lines laid out for the width recorded from the window
//   c  vxfw/list: every unsigned subtraction that reaches an index or the scroll state is ordered by the
//      facts in force at the sink (predicate abstraction over the function's own guards); a decrement at
//      a function entry is lifted to its call sites; index expressions are within [0, len); the
//      wantsCursor site is a listed exception whose side conditions are obligations themselves; every
//      store to cursor is followed by ensureScroll; ensureScroll sets wantsCursor only under
//      cursor >= top and otherwise re-anchors top = cursor with offset = 0; pending is reset after use
//   d  every integer division in the anchored files has a divisor the guards make non-zero
//
// Engines (local to this file): c19Lin (linear forms over access paths), c19Eval (intervals with callee
// summaries, B-sign of DESIGN E8), c19Flow (predicate abstraction over go/cfg with ghost typestate bits,
// U-sub of E8 and the ordering queries of E9 made path sensitive).

import (
	"fmt"
	"go/ast"
	"go/token"
	"go/types"
	"math"
	"os"
	"sort"
	"strings"

	"golang.org/x/tools/go/cfg"
	"golang.org/x/tools/go/packages"
)

func init() { register("C19", false, runC19) }

// ---------------------------------------------------------------------------------------------
// access paths and linear forms
// ---------------------------------------------------------------------------------------------

type c19Path struct {
	root types.Object
	path []string
}

func (p c19Path) String() string {
	if p.root == nil {
		return "?"
	}
	return p.root.Name() + joinDot(p.path)
}

// c19Chain resolves x, x.f, x.f[i], *x, (x) to a root variable and a field path.
func c19Chain(info *types.Info, e ast.Expr) (c19Path, bool) {
	switch t := e.(type) {
	case *ast.Ident:
		if v, ok := info.ObjectOf(t).(*types.Var); ok {
			return c19Path{root: v}, true
		}
	case *ast.ParenExpr:
		return c19Chain(info, t.X)
	case *ast.StarExpr:
		return c19Chain(info, t.X)
	case *ast.SelectorExpr:
		if s, ok := info.Selections[t]; ok {
			if s.Kind() != types.FieldVal {
				return c19Path{}, false
			}
			p, ok := c19Chain(info, t.X)
			if !ok {
				return p, false
			}
			return c19Path{p.root, append(append([]string{}, p.path...), t.Sel.Name)}, true
		}
		if v, ok := info.ObjectOf(t.Sel).(*types.Var); ok {
			return c19Path{root: v}, true
		}
	case *ast.IndexExpr:
		p, ok := c19Chain(info, t.X)
		if !ok {
			return p, false
		}
		return c19Path{p.root, append(append([]string{}, p.path...), "[]")}, true
	}
	return c19Path{}, false
}

// c19ReadPaths lists the access paths read by an expression.
func c19ReadPaths(info *types.Info, e ast.Node) []c19Path {
	var out []c19Path
	var visit func(n ast.Node)
	visit = func(n ast.Node) {
		if n == nil {
			return
		}
		ast.Inspect(n, func(m ast.Node) bool {
			switch t := m.(type) {
			case *ast.FuncLit:
				return false
			case *ast.Ident, *ast.SelectorExpr, *ast.IndexExpr, *ast.StarExpr:
				if p, ok := c19Chain(info, t.(ast.Expr)); ok {
					out = append(out, p)
					// index operands inside the chain are reads of their own
					cur := t.(ast.Expr)
					for cur != nil {
						switch c := cur.(type) {
						case *ast.IndexExpr:
							visit(c.Index)
							cur = c.X
						case *ast.SelectorExpr:
							cur = c.X
						case *ast.StarExpr:
							cur = c.X
						case *ast.ParenExpr:
							cur = c.X
						default:
							cur = nil
						}
					}
					return false
				}
			}
			return true
		})
	}
	visit(e)
	return out
}

type c19Term struct {
	id    string
	ex    ast.Expr
	paths []c19Path
	isLen bool
}

// affected: does a write to w change the value of the term?
func (t *c19Term) affected(w c19Path) bool {
	for _, r := range t.paths {
		if w.root != r.root {
			continue
		}
		n := len(w.path)
		if len(r.path) < n {
			n = len(r.path)
		}
		same := true
		for i := 0; i < n; i++ {
			if w.path[i] != r.path[i] {
				same = false
				break
			}
		}
		if !same {
			continue
		}
		// an element store does not change len(x)
		if t.isLen && len(w.path) > len(r.path) && w.path[len(r.path)] == "[]" {
			continue
		}
		return true
	}
	return false
}

type c19Lin struct {
	coef map[string]int64
	tm   map[string]*c19Term
	k    int64
}

func c19NewLin() *c19Lin { return &c19Lin{coef: map[string]int64{}, tm: map[string]*c19Term{}} }

func (l *c19Lin) clone() *c19Lin {
	o := c19NewLin()
	o.k = l.k
	for id, c := range l.coef {
		o.coef[id] = c
		o.tm[id] = l.tm[id]
	}
	return o
}

// plus returns l + s*o.
func (l *c19Lin) plus(o *c19Lin, s int64) *c19Lin {
	r := l.clone()
	r.k += s * o.k
	for id, c := range o.coef {
		r.coef[id] += s * c
		if r.tm[id] == nil {
			r.tm[id] = o.tm[id]
		}
	}
	for id, c := range r.coef {
		if c == 0 {
			delete(r.coef, id)
			delete(r.tm, id)
		}
	}
	return r
}

func (l *c19Lin) addK(k int64) *c19Lin { r := l.clone(); r.k += k; return r }
func (l *c19Lin) neg() *c19Lin         { return c19NewLin().plus(l, -1) }

func (l *c19Lin) ids() []string {
	var out []string
	for id, c := range l.coef {
		if c != 0 {
			out = append(out, id)
		}
	}
	disp := func(id string) string {
		if t := l.tm[id]; t != nil && t.ex != nil {
			return types.ExprString(t.ex)
		}
		return id
	}
	// ordered by what the term looks like, so that normal forms and messages do not depend on addresses
	sort.Slice(out, func(i, j int) bool {
		di, dj := disp(out[i]), disp(out[j])
		if di != dj {
			return di < dj
		}
		return out[i] < out[j]
	})
	return out
}

func (l *c19Lin) String() string {
	var parts []string
	for _, id := range l.ids() {
		c := l.coef[id]
		d := id
		if t := l.tm[id]; t != nil && t.ex != nil {
			d = types.ExprString(t.ex)
		}
		switch c {
		case 1:
			parts = append(parts, "+"+d)
		case -1:
			parts = append(parts, "-"+d)
		default:
			parts = append(parts, fmt.Sprintf("%+d*%s", c, d))
		}
	}
	if l.k != 0 || len(parts) == 0 {
		parts = append(parts, fmt.Sprintf("%+d", l.k))
	}
	return strings.TrimPrefix(strings.Join(parts, ""), "+")
}

func c19IsIntType(t types.Type) bool {
	if t == nil {
		return false
	}
	b, ok := t.Underlying().(*types.Basic)
	return ok && b.Info()&types.IsInteger != 0
}

func c19IsUnsigned(t types.Type) bool {
	if t == nil {
		return false
	}
	b, ok := t.Underlying().(*types.Basic)
	return ok && b.Info()&types.IsUnsigned != 0
}

func c19IsBuiltin(info *types.Info, call *ast.CallExpr, names ...string) string {
	id, ok := unparen(call.Fun).(*ast.Ident)
	if !ok {
		return ""
	}
	b, ok := info.Uses[id].(*types.Builtin)
	if !ok {
		return ""
	}
	for _, n := range names {
		if b.Name() == n {
			return n
		}
	}
	return ""
}

func c19IsConversion(info *types.Info, call *ast.CallExpr) (types.Type, bool) {
	if tv, ok := info.Types[call.Fun]; ok && tv.IsType() && len(call.Args) == 1 {
		return tv.Type, true
	}
	return nil, false
}

func c19NewTerm(info *types.Info, e ast.Expr) *c19Term {
	e = unparen(e)
	t := &c19Term{id: termOf(info, e).ID, ex: e, paths: c19ReadPaths(info, e)}
	if call, ok := e.(*ast.CallExpr); ok && c19IsBuiltin(info, call, "len", "cap") != "" {
		t.isLen = true
	}
	return t
}

// c19LinOf linearises an integer expression; anything that is not +, -, unary -, a constant
// factor or an integer conversion becomes an atomic term. Integer conversions are transparent
// (values are assumed to stay below 2^63; the wrap-around of an unsigned subtraction is what
// rule C19.c excludes).
func c19LinOf(info *types.Info, e ast.Expr) *c19Lin {
	l := c19NewLin()
	c19LinAdd(info, l, e, 1)
	for id, c := range l.coef {
		if c == 0 {
			delete(l.coef, id)
			delete(l.tm, id)
		}
	}
	return l
}

func c19LinAdd(info *types.Info, l *c19Lin, e ast.Expr, s int64) {
	e = unparen(e)
	if v, ok := constInt(info, e); ok {
		l.k += s * v
		return
	}
	switch t := e.(type) {
	case *ast.UnaryExpr:
		if t.Op == token.SUB {
			c19LinAdd(info, l, t.X, -s)
			return
		}
		if t.Op == token.ADD {
			c19LinAdd(info, l, t.X, s)
			return
		}
	case *ast.BinaryExpr:
		switch t.Op {
		case token.ADD:
			c19LinAdd(info, l, t.X, s)
			c19LinAdd(info, l, t.Y, s)
			return
		case token.SUB:
			c19LinAdd(info, l, t.X, s)
			c19LinAdd(info, l, t.Y, -s)
			return
		case token.MUL:
			if v, ok := constInt(info, t.X); ok {
				c19LinAdd(info, l, t.Y, s*v)
				return
			}
			if v, ok := constInt(info, t.Y); ok {
				c19LinAdd(info, l, t.X, s*v)
				return
			}
		}
	case *ast.CallExpr:
		if ty, ok := c19IsConversion(info, t); ok && c19IsIntType(ty) && c19IsIntType(info.TypeOf(t.Args[0])) {
			c19LinAdd(info, l, t.Args[0], s)
			return
		}
	}
	tm := c19NewTerm(info, e)
	l.coef[tm.id] += s
	if l.tm[tm.id] == nil {
		l.tm[tm.id] = tm
	}
}

type c19Bounds func(t *c19Term) (lo, hi float64)

func (l *c19Lin) lower(b c19Bounds) float64 {
	v := float64(l.k)
	for id, c := range l.coef {
		if c == 0 {
			continue
		}
		lo, hi := b(l.tm[id])
		if c > 0 {
			v += float64(c) * lo
		} else {
			v += float64(c) * hi
		}
		if math.IsInf(v, -1) || math.IsNaN(v) {
			return math.Inf(-1)
		}
	}
	return v
}

func (l *c19Lin) upper(b c19Bounds) float64 { return -l.neg().lower(b) }

// ---------------------------------------------------------------------------------------------
// interval evaluation with callee summaries (B-sign)
// ---------------------------------------------------------------------------------------------

// c19AV: lo <= v <= hi and v <= L + rel where L is the rule's symbolic bound (max(0,len(items)-1)).
type c19AV struct{ lo, hi, rel float64 }

func c19Top() c19AV { return c19AV{math.Inf(-1), math.Inf(1), math.Inf(1)} }

func (a c19AV) norm() c19AV {
	if a.hi < a.rel { // v <= hi <= L + hi because L >= 0
		a.rel = a.hi
	}
	return a
}

type c19Eval struct {
	c     *Ctx
	pk    *packages.Package
	info  *types.Info
	field func(ev *c19Eval, sel *ast.SelectorExpr, fv *types.Var) (c19AV, bool) // invariants on fields
	lenL  func(arg ast.Expr) bool                                               // len(arg) == L+1 (or 0)
	env   map[types.Object]c19AV
	depth int
	memo  map[ast.Expr]c19AV
}

func (ev *c19Eval) byType(e ast.Expr) c19AV {
	a := c19Top()
	if c19IsUnsigned(ev.info.TypeOf(e)) {
		a.lo = 0
	}
	return a
}

func (ev *c19Eval) eval(e ast.Expr) c19AV {
	e = unparen(e)
	if v, ok := constInt(ev.info, e); ok {
		f := float64(v)
		return c19AV{f, f, f}
	}
	switch t := e.(type) {
	case *ast.Ident:
		if o := ev.info.ObjectOf(t); o != nil {
			if a, ok := ev.env[o]; ok {
				return a
			}
		}
		return ev.byType(e)
	case *ast.SelectorExpr:
		if s, ok := ev.info.Selections[t]; ok && s.Kind() == types.FieldVal && ev.field != nil {
			if fv, ok := s.Obj().(*types.Var); ok {
				if a, ok := ev.field(ev, t, fv); ok {
					return a.norm()
				}
			}
		}
		return ev.byType(e)
	case *ast.UnaryExpr:
		if t.Op == token.SUB {
			a := ev.eval(t.X)
			return c19AV{-a.hi, -a.lo, math.Inf(1)}.norm()
		}
	case *ast.BinaryExpr:
		if !c19IsIntType(ev.info.TypeOf(e)) {
			return c19Top()
		}
		a, b := ev.eval(t.X), ev.eval(t.Y)
		switch t.Op {
		case token.ADD:
			r := c19AV{a.lo + b.lo, a.hi + b.hi, math.Min(a.rel+b.hi, b.rel+a.hi)}
			if c19IsUnsigned(ev.info.TypeOf(e)) && r.lo < 0 {
				r.lo = 0
			}
			return r.norm()
		case token.SUB:
			if c19IsUnsigned(ev.info.TypeOf(e)) {
				return ev.byType(e) // may wrap
			}
			return c19AV{a.lo - b.hi, a.hi - b.lo, a.rel - b.lo}.norm()
		case token.MUL:
			if a.lo >= 0 && b.lo >= 0 {
				return c19AV{a.lo * b.lo, math.Inf(1), math.Inf(1)}
			}
		}
		return ev.byType(e)
	case *ast.CallExpr:
		if ev.depth == 0 && len(ev.env) == 0 {
			if a, ok := ev.memo[e]; ok {
				return a
			}
			a := ev.call(t)
			if ev.memo == nil {
				ev.memo = map[ast.Expr]c19AV{}
			}
			ev.memo[e] = a
			return a
		}
		return ev.call(t)
	}
	return ev.byType(e)
}

func (ev *c19Eval) call(call *ast.CallExpr) c19AV {
	switch c19IsBuiltin(ev.info, call, "len", "cap", "min", "max") {
	case "len", "cap":
		a := c19AV{0, math.Inf(1), math.Inf(1)}
		if len(call.Args) == 1 && ev.lenL != nil && ev.lenL(call.Args[0]) {
			a.rel = 1
		}
		return a
	case "min":
		r := ev.eval(call.Args[0])
		for _, x := range call.Args[1:] {
			b := ev.eval(x)
			r = c19AV{math.Min(r.lo, b.lo), math.Min(r.hi, b.hi), math.Min(r.rel, b.rel)}
		}
		return r.norm()
	case "max":
		r := ev.eval(call.Args[0])
		for _, x := range call.Args[1:] {
			b := ev.eval(x)
			r = c19AV{math.Max(r.lo, b.lo), math.Max(r.hi, b.hi), math.Max(r.rel, b.rel)}
		}
		return r.norm()
	}
	if ty, ok := c19IsConversion(ev.info, call); ok {
		if c19IsIntType(ty) && c19IsIntType(ev.info.TypeOf(call.Args[0])) {
			a := ev.eval(call.Args[0])
			if c19IsUnsigned(ty) && a.lo < 0 {
				return c19AV{0, math.Inf(1), math.Inf(1)}
			}
			return a
		}
		return ev.byType(call)
	}
	if fn := calleeOf(ev.info, call); fn != nil && ev.depth < 3 {
		if a, ok := ev.summary(fn, call); ok {
			return a
		}
	}
	return ev.byType(call)
}

// summary evaluates a small repository helper: the join over its return statements of the returned
// expression, each parameter refined by the linear facts in force at that return.
func (ev *c19Eval) summary(fn *types.Func, call *ast.CallExpr) (c19AV, bool) {
	fi := ev.c.P.FuncOfObj(fn)
	if fi == nil || fi.Decl.Body == nil || fi.Pkg != ev.pk {
		return c19AV{}, false
	}
	sig := fn.Type().(*types.Signature)
	if sig.Results().Len() != 1 || sig.Variadic() || !c19IsIntType(sig.Results().At(0).Type()) {
		return c19AV{}, false
	}
	if sig.Recv() != nil {
		// a method: only calls on the current receiver keep the field invariants meaningful
		sel, ok := unparen(call.Fun).(*ast.SelectorExpr)
		if !ok {
			return c19AV{}, false
		}
		id, ok := unparen(sel.X).(*ast.Ident)
		if !ok {
			return c19AV{}, false
		}
		if v, ok := ev.info.ObjectOf(id).(*types.Var); !ok || v.IsField() {
			return c19AV{}, false
		}
	}
	var params []types.Object
	for _, f := range fi.Decl.Type.Params.List {
		for _, n := range f.Names {
			params = append(params, fi.Pkg.TypesInfo.Defs[n])
		}
	}
	if len(params) != len(call.Args) {
		return c19AV{}, false
	}
	env := map[types.Object]c19AV{}
	pset := map[types.Object]bool{}
	for i, p := range params {
		if p == nil {
			return c19AV{}, false
		}
		env[p] = ev.eval(call.Args[i])
		pset[p] = true
	}
	g := c19Graph(ev.c, fi)
	// parameters must not be reassigned, named results and closures are not understood
	if fi.Decl.Type.Results != nil {
		for _, f := range fi.Decl.Type.Results.List {
			if len(f.Names) > 0 {
				return c19AV{}, false
			}
		}
	}
	unsupported := false
	ast.Inspect(fi.Decl.Body, func(n ast.Node) bool {
		switch n.(type) {
		case *ast.FuncLit, *ast.DeferStmt, *ast.GoStmt:
			unsupported = true
		}
		if n != nil && assignsAny(fi.Pkg.TypesInfo, n, pset) {
			unsupported = true
		}
		return !unsupported
	})
	if unsupported {
		return c19AV{}, false
	}
	sub := &c19Eval{c: ev.c, pk: fi.Pkg, info: fi.Pkg.TypesInfo, field: ev.field, lenL: ev.lenL, env: env, depth: ev.depth + 1}
	rets := g.Find(func(n ast.Node) bool { _, ok := n.(*ast.ReturnStmt); return ok })
	if len(rets) == 0 {
		return c19AV{}, false
	}
	first := true
	var out c19AV
	for _, h := range rets {
		rs := h.Node.(*ast.ReturnStmt)
		if len(rs.Results) != 1 {
			return c19AV{}, false
		}
		a := sub.eval(rs.Results[0])
		if id, ok := unparen(rs.Results[0]).(*ast.Ident); ok {
			if p := fi.Pkg.TypesInfo.ObjectOf(id); p != nil && pset[p] {
				pid := fmt.Sprintf("%p", p)
				other := func(t Term) (c19AV, bool) {
					if t.ID == "" {
						return c19AV{0, 0, 0}, true
					}
					for q := range pset {
						if fmt.Sprintf("%p", q) == t.ID {
							return env[q], true
						}
					}
					return c19AV{}, false
				}
				for _, f := range g.FactsAt(h.Loc) {
					if f.Kind != "lin" {
						continue
					}
					k := float64(f.K)
					if f.A.ID == pid { // p - B <= K
						if b, ok := other(f.B); ok {
							a.hi = math.Min(a.hi, b.hi+k)
							a.rel = math.Min(a.rel, b.rel+k)
						}
					}
					if f.B.ID == pid { // A - p <= K
						if b, ok := other(f.A); ok {
							a.lo = math.Max(a.lo, b.lo-k)
						}
					}
				}
			}
		}
		a = a.norm()
		if first {
			out, first = a, false
		} else {
			out = c19AV{math.Min(out.lo, a.lo), math.Max(out.hi, a.hi), math.Max(out.rel, a.rel)}
		}
	}
	return out, true
}

func (ev *c19Eval) bounds() c19Bounds {
	return func(t *c19Term) (float64, float64) {
		if t == nil || t.ex == nil {
			return math.Inf(-1), math.Inf(1)
		}
		a := ev.eval(t.ex)
		return a.lo, a.hi
	}
}

// c19TypeBounds: bounds from types alone (unsigned and len are >= 0).
func c19TypeBounds(c *Ctx, pk *packages.Package) c19Bounds {
	ev := &c19Eval{c: c, pk: pk, info: pk.TypesInfo, depth: 3}
	return ev.bounds()
}

// ---------------------------------------------------------------------------------------------
// predicate abstraction over the CFG
// ---------------------------------------------------------------------------------------------

type c19Pred struct {
	kind  string // "le": base <= k   "eq": base == k   "bool": term is true
	base  *c19Lin
	k     int64
	term  *c19Term
	key   string
	bit   int
	terms []*c19Term
	bkey  string
	q1    *c19Query // le: base <= k ; eq: base <= k
	q2    *c19Query // eq: base <= k-1
}

func (p *c19Pred) String() string {
	switch p.kind {
	case "le":
		return fmt.Sprintf("%s <= %d", p.base, p.k)
	case "eq":
		return fmt.Sprintf("%s == %d", p.base, p.k)
	}
	return types.ExprString(p.term.ex)
}

type c19Form struct {
	op byte // 'a' atom, 'n' not, '&', '|', 'T', 'F', 'U'
	p  *c19Pred
	xs []*c19Form
}

var (
	c19T = &c19Form{op: 'T'}
	c19F = &c19Form{op: 'F'}
	c19U = &c19Form{op: 'U'}
)

func c19Not(x *c19Form) *c19Form {
	switch x.op {
	case 'T':
		return c19F
	case 'F':
		return c19T
	case 'U':
		return c19U
	case 'n':
		return x.xs[0]
	}
	return &c19Form{op: 'n', xs: []*c19Form{x}}
}
func c19And(xs ...*c19Form) *c19Form { return &c19Form{op: '&', xs: xs} }
func c19Or(xs ...*c19Form) *c19Form  { return &c19Form{op: '|', xs: xs} }

func (f *c19Form) preds(out map[*c19Pred]bool) {
	if f.op == 'a' {
		out[f.p] = true
	}
	for _, x := range f.xs {
		x.preds(out)
	}
}

func (f *c19Form) String() string {
	switch f.op {
	case 'a':
		return f.p.String()
	case 'n':
		return "!(" + f.xs[0].String() + ")"
	case '&', '|':
		var s []string
		for _, x := range f.xs {
			s = append(s, x.String())
		}
		sep := " && "
		if f.op == '|' {
			sep = " || "
		}
		return "(" + strings.Join(s, sep) + ")"
	case 'T':
		return "true"
	case 'F':
		return "false"
	}
	return "?"
}

func c19Normalise(l *c19Lin) (base *c19Lin, c int64, flipped bool) {
	base = l.clone()
	base.k = 0
	c = l.k
	ids := base.ids()
	if len(ids) > 0 && base.coef[ids[0]] < 0 {
		base = base.neg()
		flipped = true
	}
	return
}

func c19BaseKey(b *c19Lin) string {
	var s []string
	for _, id := range b.ids() {
		s = append(s, fmt.Sprintf("%s*%d", id, b.coef[id]))
	}
	return strings.Join(s, "+")
}

type c19Effect struct {
	kind    byte // 'a' assignment, 'h' havoc below lhs, 'x' havoc everything
	lhs     c19Path
	lhsID   string
	rhs     *c19Lin
	rhsBool int
	plan    []c19Plan
	planned bool
}

type c19Plan struct {
	p    *c19Pred
	mode byte // 'u' unknown, 'b' constant, 's' substitution evaluated in the old state
	val  int
	cs   *c19Cons
}

const c19GhostShift = 24

type c19Flow struct {
	c      *Ctx
	g      *FG
	info   *types.Info
	bounds c19Bounds

	all      map[string]*c19Pred
	tracked  []*c19Pred
	groups   map[string][]*c19Pred
	cond     map[*cfg.Block]*c19Form
	seeds    map[string]bool
	seedRoot map[types.Object]bool
	effs     map[ast.Node][]*c19Effect

	ghostInit uint32
	ghost     func(n ast.Node, st uint32) []uint32
	feasibleX func(fl *c19Flow, st uint32) bool

	in      map[*cfg.Block]map[uint32]bool
	feas    map[uint32]bool
	queries map[string]*c19Query
	bcache  map[string][2]float64
	rngEffs map[*cfg.Block][]*c19Effect
	err     string
	solved  bool
}

func c19NewFlow(c *Ctx, g *FG, bounds c19Bounds) *c19Flow {
	return &c19Flow{c: c, g: g, info: g.Info, bounds: bounds, all: map[string]*c19Pred{}, groups: map[string][]*c19Pred{},
		cond: map[*cfg.Block]*c19Form{}, seeds: map[string]bool{}, seedRoot: map[types.Object]bool{}, effs: map[ast.Node][]*c19Effect{},
		in: map[*cfg.Block]map[uint32]bool{}, feas: map[uint32]bool{}, queries: map[string]*c19Query{}, bcache: map[string][2]float64{},
		rngEffs: map[*cfg.Block][]*c19Effect{}}
}

func (fl *c19Flow) pred(kind string, base *c19Lin, k int64, term *c19Term) *c19Pred {
	var key string
	if kind == "bool" {
		key = "bool|" + term.id
	} else {
		key = fmt.Sprintf("%s|%s|%d", kind, c19BaseKey(base), k)
	}
	if p, ok := fl.all[key]; ok {
		return p
	}
	p := &c19Pred{kind: kind, base: base, k: k, term: term, key: key, bit: -1}
	if kind == "bool" {
		p.terms = []*c19Term{term}
	} else {
		for _, id := range base.ids() {
			p.terms = append(p.terms, base.tm[id])
		}
	}
	fl.all[key] = p
	return p
}

// le: l <= 0
func (fl *c19Flow) le(l *c19Lin) *c19Form {
	base, c, flipped := c19Normalise(l)
	if len(base.ids()) == 0 {
		if c <= 0 {
			return c19T
		}
		return c19F
	}
	if !flipped {
		return &c19Form{op: 'a', p: fl.pred("le", base, -c, nil)}
	}
	return c19Not(&c19Form{op: 'a', p: fl.pred("le", base, c-1, nil)})
}

// ge0: l >= 0
func (fl *c19Flow) ge0(l *c19Lin) *c19Form { return fl.le(l.neg()) }

// eq: l == 0
func (fl *c19Flow) eq(l *c19Lin) *c19Form {
	base, c, flipped := c19Normalise(l)
	if len(base.ids()) == 0 {
		if c == 0 {
			return c19T
		}
		return c19F
	}
	v := -c
	if flipped {
		v = c
	}
	return &c19Form{op: 'a', p: fl.pred("eq", base, v, nil)}
}

func (fl *c19Flow) boolAtom(e ast.Expr) *c19Form {
	if _, ok := c19Chain(fl.info, e); !ok {
		return c19U
	}
	return &c19Form{op: 'a', p: fl.pred("bool", nil, 0, c19NewTerm(fl.info, e))}
}

func c19BoolConst(info *types.Info, e ast.Expr) (bool, bool) {
	if tv, ok := info.Types[e]; ok && tv.Value != nil {
		if b, ok := tv.Type.Underlying().(*types.Basic); ok && b.Info()&types.IsBoolean != 0 {
			return tv.Value.String() == "true", true
		}
	}
	return false, false
}

func c19IsBoolType(t types.Type) bool {
	if t == nil {
		return false
	}
	b, ok := t.Underlying().(*types.Basic)
	return ok && b.Info()&types.IsBoolean != 0
}

// form translates a condition.
func (fl *c19Flow) form(e ast.Expr) *c19Form {
	e = unparen(e)
	if v, ok := c19BoolConst(fl.info, e); ok {
		if v {
			return c19T
		}
		return c19F
	}
	switch t := e.(type) {
	case *ast.UnaryExpr:
		if t.Op == token.NOT {
			return c19Not(fl.form(t.X))
		}
	case *ast.BinaryExpr:
		switch t.Op {
		case token.LAND:
			return c19And(fl.form(t.X), fl.form(t.Y))
		case token.LOR:
			return c19Or(fl.form(t.X), fl.form(t.Y))
		case token.EQL, token.NEQ, token.LSS, token.LEQ, token.GTR, token.GEQ:
			return fl.cmp(t.X, t.Op, t.Y)
		}
	case *ast.Ident, *ast.SelectorExpr:
		if c19IsBoolType(fl.info.TypeOf(e)) {
			return fl.boolAtom(e)
		}
	}
	return c19U
}

func (fl *c19Flow) cmp(x ast.Expr, op token.Token, y ast.Expr) *c19Form {
	if c19IsBoolType(fl.info.TypeOf(x)) && (op == token.EQL || op == token.NEQ) {
		var f *c19Form
		if v, ok := c19BoolConst(fl.info, y); ok {
			f = fl.form(x)
			if !v {
				f = c19Not(f)
			}
		} else if v, ok := c19BoolConst(fl.info, x); ok {
			f = fl.form(y)
			if !v {
				f = c19Not(f)
			}
		} else {
			return c19U
		}
		if op == token.NEQ {
			f = c19Not(f)
		}
		return f
	}
	if !isIntegerExpr(fl.info, x) || !isIntegerExpr(fl.info, y) {
		return c19U
	}
	l := c19LinOf(fl.info, x).plus(c19LinOf(fl.info, y), -1) // x - y
	switch op {
	case token.LSS:
		return fl.le(l.addK(1))
	case token.LEQ:
		return fl.le(l)
	case token.GTR:
		return fl.le(l.neg().addK(1))
	case token.GEQ:
		return fl.le(l.neg())
	case token.EQL:
		return fl.eq(l)
	case token.NEQ:
		return c19Not(fl.eq(l))
	}
	return c19U
}

func (fl *c19Flow) goal(f *c19Form) *c19Form {
	ps := map[*c19Pred]bool{}
	f.preds(ps)
	for p := range ps {
		for _, t := range p.terms {
			fl.seeds[t.id] = true
		}
	}
	return f
}

// goalAt registers a goal checked at l: the conditions that guard l are relevant as well (their
// predicates may be correlated with the goal only through control flow).
func (fl *c19Flow) goalAt(f *c19Form, l Loc) *c19Form {
	fl.goal(f)
	for _, gd := range fl.g.Guards(l) {
		var gf *c19Form
		if gd.Cond.Tag != nil {
			gf = fl.cmp(gd.Cond.Tag, token.EQL, gd.Cond.Expr)
		} else {
			gf = fl.form(gd.Cond.Expr)
		}
		fl.goal(gf)
	}
	return f
}

// eval3: 1 true, 0 false, -1 unknown
func (fl *c19Flow) eval3(f *c19Form, st uint32) int {
	switch f.op {
	case 'T':
		return 1
	case 'F':
		return 0
	case 'U':
		return -1
	case 'a':
		if f.p.bit >= 0 {
			return int(st >> uint(f.p.bit) & 1)
		}
		return -1
	case 'n':
		v := fl.eval3(f.xs[0], st)
		if v < 0 {
			return -1
		}
		return 1 - v
	case '&':
		r := 1
		for _, x := range f.xs {
			v := fl.eval3(x, st)
			if v == 0 {
				return 0
			}
			if v < 0 {
				r = -1
			}
		}
		return r
	case '|':
		r := 0
		for _, x := range f.xs {
			v := fl.eval3(x, st)
			if v == 1 {
				return 1
			}
			if v < 0 {
				r = -1
			}
		}
		return r
	}
	return -1
}

// c19Query is the question "base <= v"; what the static bounds and each single fact of a state
// say about it is tabulated once.
type c19Query struct {
	base   *c19Lin
	bkey   string
	v      int64
	bound  int
	byFact [][2]int8
	ready  bool
}

func (fl *c19Flow) query(base *c19Lin, v int64) *c19Query {
	bkey := c19BaseKey(base)
	key := fmt.Sprintf("%s|%d", bkey, v)
	if q, ok := fl.queries[key]; ok {
		return q
	}
	q := &c19Query{base: base, bkey: bkey, v: v}
	fl.queries[key] = q
	return q
}

// facts: the linear expressions known to be >= 0 when the predicate has value val.
func (p *c19Pred) facts(val int) []*c19Lin {
	switch {
	case p.kind == "le" && val == 1:
		return []*c19Lin{p.base.neg().addK(p.k)}
	case p.kind == "le":
		return []*c19Lin{p.base.addK(-p.k - 1)}
	case p.kind == "eq" && val == 1:
		return []*c19Lin{p.base.neg().addK(p.k), p.base.addK(-p.k)}
	}
	return nil
}

func (fl *c19Flow) prepare(q *c19Query) {
	if q.ready {
		return
	}
	q.ready = true
	want := q.base.neg().addK(q.v)  // v - base >= 0
	refute := q.base.addK(-q.v - 1) // base - v - 1 >= 0
	q.bound = -1
	if want.lower(fl.bounds) >= 0 {
		q.bound = 1
	} else if refute.lower(fl.bounds) >= 0 {
		q.bound = 0
	}
	q.byFact = make([][2]int8, len(fl.tracked))
	for i, p := range fl.tracked {
		q.byFact[i] = [2]int8{-1, -1}
		for val := 0; val < 2; val++ {
			for _, m := range p.facts(val) {
				// one fact used once: goal - fact has a non-negative lower bound
				if want.plus(m, -1).lower(fl.bounds) >= 0 {
					q.byFact[i][val] = 1
					break
				}
				if refute.plus(m, -1).lower(fl.bounds) >= 0 {
					q.byFact[i][val] = 0
					break
				}
			}
		}
	}
}

func (fl *c19Flow) interval(st uint32, base *c19Lin, bkey string) (float64, float64) {
	sb, ok := fl.bcache[bkey]
	if !ok {
		sb = [2]float64{base.lower(fl.bounds), base.upper(fl.bounds)}
		fl.bcache[bkey] = sb
	}
	lo, hi := sb[0], sb[1]
	grp := fl.groups[bkey]
	for _, p := range grp {
		v := st >> uint(p.bit) & 1
		k := float64(p.k)
		switch p.kind {
		case "le":
			if v == 1 {
				hi = math.Min(hi, k)
			} else {
				lo = math.Max(lo, k+1)
			}
		case "eq":
			if v == 1 {
				lo, hi = math.Max(lo, k), math.Min(hi, k)
			}
		}
	}
	for changed := true; changed; {
		changed = false
		for _, p := range grp {
			if p.kind == "eq" && st>>uint(p.bit)&1 == 0 && lo <= hi {
				if lo == float64(p.k) {
					lo++
					changed = true
				}
				if hi == float64(p.k) {
					hi--
					changed = true
				}
			}
		}
	}
	return lo, hi
}

// evalQ decides base <= v in a state: by the interval of the base (bounds from types and the
// predicates on the same base), or with one other fact of the state used once.
func (fl *c19Flow) evalQ(st uint32, q *c19Query, skipOwn bool) int {
	fl.prepare(q)
	if !skipOwn {
		lo, hi := fl.interval(st, q.base, q.bkey)
		if hi <= float64(q.v) {
			return 1
		}
		if lo > float64(q.v) {
			return 0
		}
	}
	if q.bound >= 0 {
		return q.bound
	}
	for i, p := range fl.tracked {
		if p.kind == "bool" || (skipOwn && p.bkey == q.bkey) {
			continue
		}
		if r := q.byFact[i][st>>uint(p.bit)&1]; r >= 0 {
			return int(r)
		}
	}
	return -1
}

// c19Cons is a prepared constraint l <= 0 or l == 0.
type c19Cons struct {
	constVal int
	kind     string
	flipped  bool
	q1, q2   *c19Query
	eqKey    string
}

func (fl *c19Flow) cons(l *c19Lin, kind string) *c19Cons {
	base, c, flipped := c19Normalise(l)
	cs := &c19Cons{constVal: -1, kind: kind, flipped: flipped}
	if len(base.ids()) == 0 {
		ok := c <= 0
		if kind == "eq" {
			ok = c == 0
		}
		cs.constVal = 0
		if ok {
			cs.constVal = 1
		}
		return cs
	}
	if kind == "le" {
		if !flipped {
			cs.q1 = fl.query(base, -c)
		} else {
			cs.q1 = fl.query(base, c-1)
		}
		return cs
	}
	v := -c
	if flipped {
		v = c
	}
	cs.q1, cs.q2 = fl.query(base, v), fl.query(base, v-1)
	cs.eqKey = fmt.Sprintf("eq|%s|%d", c19BaseKey(base), v)
	return cs
}

func (fl *c19Flow) evalC(st uint32, cs *c19Cons) int {
	if cs.constVal >= 0 {
		return cs.constVal
	}
	neg3 := func(v int) int {
		if v < 0 {
			return v
		}
		return 1 - v
	}
	if cs.kind == "le" {
		if !cs.flipped {
			return fl.evalQ(st, cs.q1, false)
		}
		return neg3(fl.evalQ(st, cs.q1, false))
	}
	if p, ok := fl.all[cs.eqKey]; ok && p.bit >= 0 {
		return int(st >> uint(p.bit) & 1)
	}
	a := fl.evalQ(st, cs.q1, false)
	b := neg3(fl.evalQ(st, cs.q2, false))
	if a == 0 || b == 0 {
		return 0
	}
	if a == 1 && b == 1 {
		return 1
	}
	return -1
}

func (fl *c19Flow) feasible(st uint32) bool {
	pm := st & (1<<c19GhostShift - 1)
	ok, seen := fl.feas[pm]
	if !seen {
		ok = true
		for bkey, grp := range fl.groups {
			lo, hi := fl.interval(pm, grp[0].base, bkey)
			if lo > hi {
				ok = false
				break
			}
		}
		// a predicate's value must not contradict what the bounds or one fact of another group imply
		for _, p := range fl.tracked {
			if !ok {
				break
			}
			if p.kind == "bool" {
				continue
			}
			v := int(pm >> uint(p.bit) & 1)
			switch p.kind {
			case "le":
				if d := fl.evalQ(pm, p.q1, true); d >= 0 && d != v {
					ok = false
				}
			case "eq":
				if v == 1 && (fl.evalQ(pm, p.q1, true) == 0 || fl.evalQ(pm, p.q2, true) == 1) {
					ok = false
				}
			}
		}
		fl.feas[pm] = ok
	}
	return ok
}

// consistent: feasible, and the ghost part agrees with the predicates (checked after the ghost update of a node).
func (fl *c19Flow) consistent(st uint32) bool {
	return fl.feasible(st) && (fl.feasibleX == nil || fl.feasibleX(fl, st))
}

// ---- effects of a CFG node

var c19ModMemo = map[*types.Func][][]string{}
var c19ModAll = map[*types.Func]bool{}

// c19ModSet: the receiver-relative field paths a repository method may write (nil,false = anything).
func c19ModSet(c *Ctx, fn *types.Func, visiting map[*types.Func]bool) ([][]string, bool) {
	if c19ModAll[fn] {
		return nil, false
	}
	if m, ok := c19ModMemo[fn]; ok {
		return m, true
	}
	fi := c.P.FuncOfObj(fn)
	if fi == nil || fi.Decl.Body == nil || fi.Decl.Recv == nil || len(fi.Decl.Recv.List) != 1 || len(fi.Decl.Recv.List[0].Names) != 1 || visiting[fn] {
		return nil, false
	}
	visiting[fn] = true
	defer delete(visiting, fn)
	info := fi.Pkg.TypesInfo
	recv := info.Defs[fi.Decl.Recv.List[0].Names[0]]
	var out [][]string
	all := false
	add := func(e ast.Expr) {
		if p, ok := c19Chain(info, e); ok {
			if p.root == recv {
				out = append(out, p.path)
			}
		} else if rootObj(info, e) == recv {
			all = true
		}
	}
	ast.Inspect(fi.Decl.Body, func(n ast.Node) bool {
		switch s := n.(type) {
		case *ast.AssignStmt:
			for _, l := range s.Lhs {
				add(l)
			}
		case *ast.IncDecStmt:
			add(s.X)
		case *ast.RangeStmt:
			if s.Key != nil {
				add(s.Key)
			}
			if s.Value != nil {
				add(s.Value)
			}
		case *ast.UnaryExpr:
			if s.Op == token.AND {
				add(s.X)
			}
		case *ast.CallExpr:
			for _, a := range s.Args {
				if id, ok := unparen(a).(*ast.Ident); ok && info.ObjectOf(id) == recv {
					all = true
				}
			}
			if sel, ok := unparen(s.Fun).(*ast.SelectorExpr); ok {
				if ss, ok := info.Selections[sel]; ok && ss.Kind() == types.MethodVal {
					m := ss.Obj().(*types.Func)
					if p, ok := c19Chain(info, sel.X); ok && p.root == recv {
						_, ptr := m.Type().(*types.Signature).Recv().Type().(*types.Pointer)
						if ptr {
							if len(p.path) == 0 {
								if sub, ok := c19ModSet(c, m, visiting); ok {
									out = append(out, sub...)
								} else {
									all = true
								}
							} else {
								out = append(out, p.path)
							}
						}
					}
				}
			}
		}
		return true
	})
	if all {
		c19ModAll[fn] = true
		return nil, false
	}
	c19ModMemo[fn] = out
	return out, true
}

func (fl *c19Flow) callEffects(call *ast.CallExpr) []c19Effect {
	var out []c19Effect
	info := fl.info
	if _, ok := c19IsConversion(info, call); ok {
		return nil
	}
	if id, ok := unparen(call.Fun).(*ast.Ident); ok {
		if _, ok := info.Uses[id].(*types.Builtin); ok {
			return nil
		}
	}
	if sel, ok := unparen(call.Fun).(*ast.SelectorExpr); ok {
		if ss, ok := info.Selections[sel]; ok && ss.Kind() == types.MethodVal {
			m := ss.Obj().(*types.Func)
			if sig, ok := m.Type().(*types.Signature); ok && sig.Recv() != nil {
				if _, ptr := sig.Recv().Type().(*types.Pointer); ptr {
					if p, ok := c19Chain(info, sel.X); ok {
						if mods, ok := c19ModSet(fl.c, m, map[*types.Func]bool{}); ok {
							for _, suffix := range mods {
								out = append(out, c19Effect{kind: 'h', lhs: c19Path{p.root, append(append([]string{}, p.path...), suffix...)}})
							}
						} else {
							out = append(out, c19Effect{kind: 'h', lhs: p})
						}
					} else if !types.IsInterface(info.TypeOf(sel.X)) {
						out = append(out, c19Effect{kind: 'x'})
					}
				}
			}
		}
	}
	for _, a := range call.Args {
		a = unparen(a)
		t := info.TypeOf(a)
		if t == nil {
			continue
		}
		switch t.Underlying().(type) {
		case *types.Pointer:
			if u, ok := a.(*ast.UnaryExpr); ok && u.Op == token.AND {
				continue // handled as an address-of
			}
			if p, ok := c19Chain(info, a); ok {
				out = append(out, c19Effect{kind: 'h', lhs: p})
			}
		case *types.Slice, *types.Map:
			if p, ok := c19Chain(info, a); ok {
				out = append(out, c19Effect{kind: 'h', lhs: c19Path{p.root, append(append([]string{}, p.path...), "[]")}})
			}
		}
	}
	return out
}

func (fl *c19Flow) assignEffect(lhs, rhs ast.Expr, tok token.Token) c19Effect {
	info := fl.info
	if id, ok := unparen(lhs).(*ast.Ident); ok && id.Name == "_" {
		return c19Effect{kind: 0}
	}
	p, ok := c19Chain(info, lhs)
	if !ok {
		return c19Effect{kind: 'x'}
	}
	ef := c19Effect{kind: 'a', lhs: p, lhsID: termOf(info, unparen(lhs)).ID, rhsBool: -1}
	if rhs == nil {
		return ef
	}
	if c19IsIntType(info.TypeOf(lhs)) && c19IsIntType(info.TypeOf(rhs)) {
		switch tok {
		case token.ASSIGN, token.DEFINE:
			ef.rhs = c19LinOf(info, rhs)
		case token.ADD_ASSIGN:
			ef.rhs = c19LinOf(info, lhs).plus(c19LinOf(info, rhs), 1)
		case token.SUB_ASSIGN:
			ef.rhs = c19LinOf(info, lhs).plus(c19LinOf(info, rhs), -1)
		}
	}
	if tok == token.ASSIGN || tok == token.DEFINE {
		if v, ok := c19BoolConst(info, rhs); ok {
			ef.rhsBool = 0
			if v {
				ef.rhsBool = 1
			}
		}
	}
	return ef
}

func (fl *c19Flow) effectsOf(n ast.Node) []*c19Effect {
	if e, ok := fl.effs[n]; ok {
		return e
	}
	var calls, assigns []c19Effect
	inspectNoLit(n, func(m ast.Node) bool {
		switch s := m.(type) {
		case *ast.FuncLit:
			if m != n {
				fl.err = "function literal inside " + fl.g.Name
			}
		case *ast.GoStmt, *ast.DeferStmt:
			fl.err = "go/defer inside " + fl.g.Name
		case *ast.CallExpr:
			calls = append(calls, fl.callEffects(s)...)
		case *ast.UnaryExpr:
			if s.Op == token.AND {
				if _, isLit := unparen(s.X).(*ast.CompositeLit); !isLit {
					if p, ok := c19Chain(fl.info, s.X); ok {
						calls = append(calls, c19Effect{kind: 'h', lhs: p})
					}
				}
			}
		case *ast.AssignStmt:
			if len(s.Lhs) == 1 && len(s.Rhs) == 1 {
				assigns = append(assigns, fl.assignEffect(s.Lhs[0], s.Rhs[0], s.Tok))
			} else {
				for _, l := range s.Lhs {
					assigns = append(assigns, fl.assignEffect(l, nil, s.Tok))
				}
			}
		case *ast.IncDecStmt:
			ef := fl.assignEffect(s.X, nil, token.ASSIGN)
			if ef.kind == 'a' && c19IsIntType(fl.info.TypeOf(s.X)) {
				d := int64(1)
				if s.Tok == token.DEC {
					d = -1
				}
				ef.rhs = c19LinOf(fl.info, s.X).addK(d)
			}
			assigns = append(assigns, ef)
		case *ast.DeclStmt:
			if gd, ok := s.Decl.(*ast.GenDecl); ok && gd.Tok == token.VAR {
				for _, sp := range gd.Specs {
					vs, ok := sp.(*ast.ValueSpec)
					if !ok {
						continue
					}
					for i, name := range vs.Names {
						if len(vs.Values) == len(vs.Names) {
							assigns = append(assigns, fl.assignEffect(name, vs.Values[i], token.DEFINE))
						} else if len(vs.Values) == 0 {
							ef := fl.assignEffect(name, nil, token.DEFINE)
							if ef.kind == 'a' {
								if c19IsIntType(fl.info.TypeOf(name)) {
									ef.rhs = c19NewLin()
								}
								if c19IsBoolType(fl.info.TypeOf(name)) {
									ef.rhsBool = 0
								}
							}
							assigns = append(assigns, ef)
						} else {
							assigns = append(assigns, fl.assignEffect(name, nil, token.DEFINE))
						}
					}
				}
			}
		}
		return true
	})
	var out []*c19Effect
	for _, ef := range append(calls, assigns...) {
		ef := ef
		out = append(out, &ef)
	}
	fl.effs[n] = out
	return out
}

func (p *c19Pred) affectedBy(w c19Path) bool {
	for _, t := range p.terms {
		if t.affected(w) {
			return true
		}
	}
	return false
}

func (fl *c19Flow) expand(out map[uint32]bool, st uint32, unknown []int) {
	n := len(unknown)
	for m := 0; m < 1<<uint(n); m++ {
		s := st
		for i, b := range unknown {
			s &^= 1 << uint(b)
			if m>>uint(i)&1 == 1 {
				s |= 1 << uint(b)
			}
		}
		if fl.feasible(s) {
			out[s] = true
		}
	}
}

func (fl *c19Flow) planOf(ef *c19Effect) []c19Plan {
	if ef.planned {
		return ef.plan
	}
	ef.planned = true
	for _, p := range fl.tracked {
		if ef.kind != 'x' && !p.affectedBy(ef.lhs) {
			continue
		}
		pl := c19Plan{p: p, mode: 'u'}
		if ef.kind == 'a' {
			switch {
			case p.kind == "bool":
				if p.term.id == ef.lhsID && ef.rhsBool >= 0 {
					pl.mode, pl.val = 'b', ef.rhsBool
				}
			case ef.rhs != nil && p.base.coef[ef.lhsID] != 0:
				only := true
				for _, t := range p.terms {
					if t.id != ef.lhsID && t.affected(ef.lhs) {
						only = false
					}
				}
				if only {
					c := p.base.coef[ef.lhsID]
					l := p.base.clone()
					delete(l.coef, ef.lhsID)
					delete(l.tm, ef.lhsID)
					l = l.plus(ef.rhs, c).addK(-p.k) // the predicate after the store: l <= 0 / l == 0 over the old values
					pl.mode, pl.cs = 's', fl.cons(l, p.kind)
				}
			}
		}
		ef.plan = append(ef.plan, pl)
	}
	return ef.plan
}

func (fl *c19Flow) applyEffect(states map[uint32]bool, ef *c19Effect) map[uint32]bool {
	if ef.kind == 0 {
		return states
	}
	plan := fl.planOf(ef)
	if len(plan) == 0 {
		return states
	}
	out := map[uint32]bool{}
	var unknown []int
	for st := range states {
		ns := st
		unknown = unknown[:0]
		for _, pl := range plan {
			val := -1
			switch pl.mode {
			case 'b':
				val = pl.val
			case 's':
				val = fl.evalC(st, pl.cs)
			}
			if val < 0 {
				unknown = append(unknown, pl.p.bit)
			} else {
				ns &^= 1 << uint(pl.p.bit)
				ns |= uint32(val) << uint(pl.p.bit)
			}
		}
		fl.expand(out, ns, unknown)
	}
	return out
}

func (fl *c19Flow) node(states map[uint32]bool, n ast.Node) map[uint32]bool {
	for _, ef := range fl.effectsOf(n) {
		states = fl.applyEffect(states, ef)
	}
	if fl.ghost != nil || fl.feasibleX != nil {
		out := map[uint32]bool{}
		for st := range states {
			var ns []uint32
			if fl.ghost != nil {
				ns = fl.ghost(n, st)
			}
			if ns == nil {
				ns = []uint32{st}
			}
			for _, s := range ns {
				if fl.consistent(s) {
					out[s] = true
				}
			}
		}
		states = out
	}
	return states
}

func (fl *c19Flow) runBlock(b *cfg.Block, in map[uint32]bool, upTo int) map[uint32]bool {
	cur := in
	if b.Kind == cfg.KindRangeBody {
		if rs, ok := b.Stmt.(*ast.RangeStmt); ok {
			efs, ok := fl.rngEffs[b]
			if !ok {
				for _, kv := range []ast.Expr{rs.Key, rs.Value} {
					if kv != nil {
						ef := fl.assignEffect(kv, nil, token.ASSIGN)
						efs = append(efs, &ef)
					}
				}
				fl.rngEffs[b] = efs
			}
			for _, ef := range efs {
				cur = fl.applyEffect(cur, ef)
			}
		}
	}
	for i := 0; i < upTo && i < len(b.Nodes); i++ {
		cur = fl.node(cur, b.Nodes[i])
	}
	return cur
}

func (fl *c19Flow) termIDs(f *c19Form) map[string]bool {
	ps := map[*c19Pred]bool{}
	f.preds(ps)
	out := map[string]bool{}
	for p := range ps {
		for _, t := range p.terms {
			out[t.id] = true
		}
	}
	return out
}

// solve chooses the predicates relevant to the goals and runs the fixpoint.
func (fl *c19Flow) solve() {
	fl.solved = true
	g := fl.g
	for _, b := range g.Blocks {
		if c := g.BranchCond(b); c != nil && b.Succs[0] != b.Succs[1] {
			if c.Tag != nil {
				fl.cond[b] = fl.cmp(c.Tag, token.EQL, c.Expr)
			} else {
				fl.cond[b] = fl.form(c.Expr)
			}
		}
		for _, n := range b.Nodes {
			fl.effectsOf(n)
		}
	}
	if fl.err != "" {
		return
	}
	for _, p := range fl.all {
		for _, t := range p.terms {
			for _, rp := range t.paths {
				if fl.seedRoot[rp.root] {
					fl.seeds[t.id] = true
				}
			}
		}
	}
	const maxBits, softBits = 14, 10
	for depth := 2; depth >= 0; depth-- {
		rel := map[string]bool{}
		for id := range fl.seeds {
			rel[id] = true
		}
		for d := 0; d < depth; d++ {
			add := map[string]bool{}
			for _, f := range fl.cond {
				ids := fl.termIDs(f)
				hit := false
				for id := range ids {
					if rel[id] {
						hit = true
					}
				}
				if hit {
					for id := range ids {
						add[id] = true
					}
				}
			}
			for _, efs := range fl.effs {
				for _, ef := range efs {
					if ef.kind == 'a' && ef.rhs != nil && rel[ef.lhsID] {
						for _, id := range ef.rhs.ids() {
							add[id] = true
						}
					}
				}
			}
			for id := range add {
				rel[id] = true
			}
		}
		var keys []string
		for k, p := range fl.all {
			in := true
			for _, t := range p.terms {
				if !rel[t.id] {
					in = false
				}
			}
			if in {
				keys = append(keys, k)
			}
		}
		if len(keys) > softBits && depth > 0 {
			continue // too many predicates: follow fewer links from the goals
		}
		if len(keys) > maxBits {
			fl.err = fmt.Sprintf("%d predicates relevant in %s (limit %d)", len(keys), g.Name, maxBits)
			return
		}
		sort.Slice(keys, func(i, j int) bool {
			si, sj := fl.all[keys[i]].String(), fl.all[keys[j]].String()
			if si != sj {
				return si < sj
			}
			return keys[i] < keys[j]
		})
		for i, k := range keys {
			p := fl.all[k]
			p.bit = i
			fl.tracked = append(fl.tracked, p)
			if p.kind != "bool" {
				p.bkey = c19BaseKey(p.base)
				fl.groups[p.bkey] = append(fl.groups[p.bkey], p)
				p.q1 = fl.query(p.base, p.k)
				if p.kind == "eq" {
					p.q2 = fl.query(p.base, p.k-1)
				}
			}
		}
		break
	}
	entry := map[uint32]bool{}
	fl.expand(entry, fl.ghostInit<<c19GhostShift, func() []int {
		var bits []int
		for _, p := range fl.tracked {
			bits = append(bits, p.bit)
		}
		return bits
	}())
	fl.in[g.Blocks[0]] = entry
	work := []*cfg.Block{g.Blocks[0]}
	for len(work) > 0 {
		b := work[len(work)-1]
		work = work[:len(work)-1]
		out := fl.runBlock(b, fl.in[b], len(b.Nodes))
		for i, s := range b.Succs {
			f := fl.cond[b]
			changed := false
			for st := range out {
				if f != nil && len(b.Succs) == 2 {
					v := fl.eval3(f, st)
					if (i == 0 && v == 0) || (i == 1 && v == 1) {
						continue
					}
				}
				if fl.in[s] == nil {
					fl.in[s] = map[uint32]bool{}
				}
				if !fl.in[s][st] {
					fl.in[s][st] = true
					changed = true
				}
			}
			if changed {
				work = append(work, s)
			}
		}
	}
}

func (fl *c19Flow) statesAt(l Loc) map[uint32]bool {
	return fl.runBlock(l.B, fl.in[l.B], l.Idx)
}

func (fl *c19Flow) exitStates() map[uint32]bool {
	out := map[uint32]bool{}
	for _, b := range fl.g.Blocks {
		if len(b.Succs) == 0 && fl.g.isNormalExit(b) {
			for st := range fl.runBlock(b, fl.in[b], len(b.Nodes)) {
				out[st] = true
			}
		}
	}
	return out
}

func (fl *c19Flow) describe(st uint32) string {
	var s []string
	for _, p := range fl.tracked {
		v := "false"
		if st>>uint(p.bit)&1 == 1 {
			v = "true"
		}
		s = append(s, fmt.Sprintf("[%s]=%s", p, v))
	}
	if len(s) == 0 {
		return "no guard of the function constrains it"
	}
	return strings.Join(s, " ")
}

// holds: is f true in every state of the set? Returns a witness state description otherwise.
func (fl *c19Flow) holds(states map[uint32]bool, f *c19Form) (bool, string) {
	var sts []uint32
	for st := range states {
		sts = append(sts, st)
	}
	sort.Slice(sts, func(i, j int) bool { return sts[i] < sts[j] })
	for _, st := range sts {
		if fl.eval3(f, st) != 1 {
			return false, fl.describe(st)
		}
	}
	return true, ""
}

// prove checks goal f at location l and records the obligation.
func (fl *c19Flow) prove(rule, key string, pos token.Pos, l Loc, f *c19Form, what, consequence string) bool {
	c := fl.c
	if fl.err != "" {
		c.undecided(rule, key, pos, "the flow analysis does not understand %s: %s", fl.g.Name, fl.err)
		return false
	}
	sts := fl.statesAt(l)
	if len(sts) == 0 {
		c.undecided(rule, key, pos, "no abstract state reaches the site in %s: the guards on the way contradict each other (or the rule's model of them does)", fl.g.Name)
		return false
	}
	ok, wit := fl.holds(sts, f)
	if ok {
		c.ok(rule, key, pos, "%s holds in all %d abstract states reaching the site (predicates tracked: %d)", what, len(sts), len(fl.tracked))
		return true
	}
	c.bad(rule, key, pos, "%s is not established on every path to the site (%s reachable with %s): %s", what, f, wit, consequence)
	return false
}

// ---------------------------------------------------------------------------------------------
// shared recognisers
// ---------------------------------------------------------------------------------------------

func c19StructOf(pk *packages.Package, name string) (*types.TypeName, *types.Struct) {
	tn, _ := pk.Types.Scope().Lookup(name).(*types.TypeName)
	if tn == nil {
		return nil, nil
	}
	st, _ := tn.Type().Underlying().(*types.Struct)
	return tn, st
}

func c19FieldNamed(st *types.Struct, name string) *types.Var {
	for i := 0; st != nil && i < st.NumFields(); i++ {
		if st.Field(i).Name() == name {
			return st.Field(i)
		}
	}
	return nil
}

// c19SelField: the field variable selected by e (x.f), or nil.
func c19SelField(info *types.Info, e ast.Expr) *types.Var {
	sel, ok := unparen(e).(*ast.SelectorExpr)
	if !ok {
		return nil
	}
	if s, ok := info.Selections[sel]; ok && s.Kind() == types.FieldVal {
		fv, _ := s.Obj().(*types.Var)
		return fv
	}
	return nil
}

type c19Store struct {
	Loc
	stmt ast.Stmt
	lhs  ast.Expr
	rhs  ast.Expr // nil when unknown (multi-value assignment)
	tok  token.Token
	fv   *types.Var
}

// c19Stores finds the assignments whose target is one of the given fields.
func c19Stores(g *FG, fields ...*types.Var) []c19Store {
	want := func(e ast.Expr) *types.Var {
		fv := c19SelField(g.Info, e)
		for _, f := range fields {
			if f != nil && fv == f {
				return fv
			}
		}
		return nil
	}
	var out []c19Store
	for _, b := range g.Blocks {
		for i, top := range b.Nodes {
			inspectNoLit(top, func(n ast.Node) bool {
				switch s := n.(type) {
				case *ast.AssignStmt:
					for j, l := range s.Lhs {
						if fv := want(l); fv != nil {
							st := c19Store{Loc: Loc{b, i}, stmt: s, lhs: l, tok: s.Tok, fv: fv}
							if len(s.Lhs) == len(s.Rhs) {
								st.rhs = s.Rhs[j]
							}
							out = append(out, st)
						}
					}
				case *ast.IncDecStmt:
					if fv := want(s.X); fv != nil {
						out = append(out, c19Store{Loc: Loc{b, i}, stmt: s, lhs: s.X, tok: s.Tok, fv: fv})
					}
				}
				return true
			})
		}
	}
	return out
}

// value of a store as a linear form (nil when not linear).
func (s c19Store) lin(info *types.Info) *c19Lin {
	switch s.tok {
	case token.INC:
		return c19LinOf(info, s.lhs).addK(1)
	case token.DEC:
		return c19LinOf(info, s.lhs).addK(-1)
	}
	if s.rhs == nil || !c19IsIntType(info.TypeOf(s.rhs)) {
		return nil
	}
	switch s.tok {
	case token.ASSIGN, token.DEFINE:
		return c19LinOf(info, s.rhs)
	case token.ADD_ASSIGN:
		return c19LinOf(info, s.lhs).plus(c19LinOf(info, s.rhs), 1)
	case token.SUB_ASSIGN:
		return c19LinOf(info, s.lhs).plus(c19LinOf(info, s.rhs), -1)
	}
	return nil
}

func (s c19Store) av(ev *c19Eval) c19AV {
	one := c19AV{1, 1, 1}
	a := ev.eval(s.lhs)
	switch s.tok {
	case token.INC:
		return c19AV{a.lo + 1, a.hi + 1, a.rel + 1}
	case token.DEC:
		return c19AV{a.lo - one.hi, a.hi - 1, a.rel - 1}
	}
	if s.rhs == nil {
		return c19Top()
	}
	b := ev.eval(s.rhs)
	switch s.tok {
	case token.ASSIGN, token.DEFINE:
		return b
	case token.ADD_ASSIGN:
		return c19AV{a.lo + b.lo, a.hi + b.hi, math.Min(a.rel+b.hi, b.rel+a.hi)}.norm()
	case token.SUB_ASSIGN:
		return c19AV{a.lo - b.hi, a.hi - b.lo, a.rel - b.lo}.norm()
	}
	return c19Top()
}

// c19SizeVars: the variables bound to the results of a call of vaxis.Window.Size in g.
func c19SizeVars(g *FG) (w, h *ast.Ident) {
	for _, hit := range g.Find(func(n ast.Node) bool { _, ok := n.(*ast.AssignStmt); return ok }) {
		as := hit.Node.(*ast.AssignStmt)
		if len(as.Rhs) != 1 || len(as.Lhs) != 2 {
			continue
		}
		call, ok := unparen(as.Rhs[0]).(*ast.CallExpr)
		if !ok {
			continue
		}
		if fn := calleeOf(g.Info, call); fn == nil || repoName(fn) != "vaxis.Window.Size" {
			continue
		}
		if id, ok := as.Lhs[0].(*ast.Ident); ok && id.Name != "_" {
			w = id
		}
		if id, ok := as.Lhs[1].(*ast.Ident); ok && id.Name != "_" {
			h = id
		}
	}
	return
}

func c19RecvObj(fi *FuncInfo) types.Object {
	if fi.Decl.Recv == nil || len(fi.Decl.Recv.List) != 1 || len(fi.Decl.Recv.List[0].Names) != 1 {
		return nil
	}
	return fi.Pkg.TypesInfo.Defs[fi.Decl.Recv.List[0].Names[0]]
}

// c19FindSel: some expression in the function that selects field fv.
func c19FindSel(fi *FuncInfo, fv *types.Var) ast.Expr {
	var out ast.Expr
	ast.Inspect(fi.Decl.Body, func(n ast.Node) bool {
		if out != nil {
			return false
		}
		if e, ok := n.(ast.Expr); ok && c19SelField(fi.Pkg.TypesInfo, e) == fv {
			if _, ok := c19Chain(fi.Pkg.TypesInfo, e); ok {
				out = e
			}
		}
		return true
	})
	return out
}

// c19LenLin: the linear form len(e) for an access path expression e (built without needing a len call in the source).
func c19LenLin(info *types.Info, e ast.Expr) *c19Lin {
	call := &ast.CallExpr{Fun: ast.NewIdent("len"), Args: []ast.Expr{e}}
	t := &c19Term{id: "len(" + termOf(info, e).ID + ")", ex: call, paths: c19ReadPaths(info, e), isLen: true}
	l := c19NewLin()
	l.coef[t.id] = 1
	l.tm[t.id] = t
	return l
}

// c19WithLen wraps bounds so that len terms are >= 0 even when fabricated.
func c19WithLen(b c19Bounds) c19Bounds {
	return func(t *c19Term) (float64, float64) {
		if t != nil && t.isLen {
			return 0, math.Inf(1)
		}
		return b(t)
	}
}

func c19Short(e ast.Node) string {
	switch t := e.(type) {
	case ast.Expr:
		return types.ExprString(t)
	case *ast.AssignStmt:
		var l, r []string
		for _, x := range t.Lhs {
			l = append(l, types.ExprString(x))
		}
		for _, x := range t.Rhs {
			r = append(r, types.ExprString(x))
		}
		return strings.Join(l, ", ") + " " + t.Tok.String() + " " + strings.Join(r, ", ")
	case *ast.IncDecStmt:
		return types.ExprString(t.X) + t.Tok.String()
	}
	return fmt.Sprintf("%T", e)
}

// ---------------------------------------------------------------------------------------------
// the check
// ---------------------------------------------------------------------------------------------

var c19Graphs = map[*FuncInfo]*FG{}

// c19Graph: one CFG per function for the whole check (locations of different rules must be comparable).
func c19Graph(c *Ctx, fi *FuncInfo) *FG {
	if g, ok := c19Graphs[fi]; ok {
		return g
	}
	g := c.P.Graph(fi)
	c19Graphs[fi] = g
	return g
}

func runC19(c *Ctx) {
	c19ModMemo = map[*types.Func][][]string{}
	c19ModAll = map[*types.Func]bool{}
	c19Graphs = map[*FuncInfo]*FG{}
	c.Clauses = []string{
		"C19.a widgets/list: every store to List.index/offset keeps it >= 0 and every store to index keeps it <= max(0,len(items)-1) (intervals, helper summaries, one guard used once); a store to items is paired with a clamping store to index; items[offset:] is reached only with offset <= len(items) (directly or through offset <= index)",
		"C19.e widgets/list: at the draw loop offset <= index < offset+height; item i of the visible items is drawn on row i; the highlighted row is index-offset",
		"C19.b widgets/pager: Layout's pending line is flushed on every path to return, never overwritten, stored twice or appended to after being stored; lines are reset once before the first flush; the column counter advances with every cell and restarts after each flush; a line is closed when col >= width; Draw reaches its loop with 0 <= Offset, Offset clamped to the content and the lines laid out for the recorded window width; each line is drawn at row-Offset",
		"C19.c vxfw/list: unsigned subtractions reaching an index or the scroll state are ordered by the guards in force (entry decrements lifted to the call sites; the wantsCursor site is an exception whose side conditions are checked); index expressions stay within [0,len); cursor stores are followed by ensureScroll; ensureScroll raises wantsCursor only under cursor >= top, else re-anchors top = cursor, offset = 0; pending is reset after it is read",
		"C19.d every integer division of the anchored files has a divisor that the guards in force make non-zero",
	}
	c.NotDec = []string{
		"visibility of the selected item after a draw of the dynamic list (depends on measured item heights)",
		"contiguity and non-overlap of the laid-out items of the dynamic list",
		"loss-free wrapping of wide characters at the window edge in the pager",
	}
	c.Assume = append(c.Assume,
		"Builder callbacks and child Draw methods do not mutate the list that calls them",
		"integer values stay below 2^63 (integer conversions are order preserving); the only wrap-around considered is the unsigned subtraction that rule C19.c excludes")
	c.expect("C19.a", 20)
	c.expect("C19.e", 3)
	c.expect("C19.b", 20)
	c.expect("C19.c", 25)
	c.expect("C19.d", 2)

	c19WidgetsList(c)
	c19Pager(c)
	c19VxfwList(c)
	c19Divisors(c)
	if os.Getenv("C19_DEBUG") != "" {
		for _, o := range c.Obs {
			fmt.Printf("DEBUG %-10s %s [%s] %s\n", o.Status, o.Key, o.Pos, o.Reason)
		}
	}
}

// ---------------------------------------------------------------------------------------------
// C19.a / C19.e — widgets/list
// ---------------------------------------------------------------------------------------------

func c19WidgetsList(c *Ctx) {
	const pkgName = "widgets/list"
	pk := c.P.Pkg(pkgName)
	if pk == nil {
		c.undecided("C19.a", pkgName, 0, "package not found")
		return
	}
	info := pk.TypesInfo
	tn, st := c19StructOf(pk, "List")
	fIndex, fOffset, fItems := c19FieldNamed(st, "index"), c19FieldNamed(st, "offset"), c19FieldNamed(st, "items")
	if tn == nil || fIndex == nil || fOffset == nil || fItems == nil {
		c.undecided("C19.a", pkgName+".List", 0, "type List with fields index, offset, items not found")
		return
	}
	// the invariant is only an invariant if nobody can write the fields behind the rule's back
	for _, file := range pk.Syntax {
		ast.Inspect(file, func(n ast.Node) bool {
			if u, ok := n.(*ast.UnaryExpr); ok && u.Op == token.AND {
				if fv := c19SelField(info, u.X); fv == fIndex || fv == fOffset {
					c.undecided("C19.a", pkgName+"/address of "+fv.Name(), u.Pos(), "the address of List.%s is taken; its stores can no longer be enumerated", fv.Name())
				}
			}
			if cl, ok := n.(*ast.CompositeLit); ok {
				if t := info.TypeOf(cl); t != nil && types.Identical(t, tn.Type()) {
					c19ListLiteral(c, info, cl, st, pkgName)
				}
			}
			return true
		})
	}
	for _, fi := range c.P.FuncsIn(pkgName) {
		g := c19Graph(c, fi)
		if g == nil {
			continue
		}
		stores := c19Stores(g, fIndex, fOffset, fItems)
		sinks := g.Find(func(n ast.Node) bool {
			switch t := n.(type) {
			case *ast.SliceExpr:
				return c19SelField(info, t.X) == fItems
			case *ast.IndexExpr:
				return c19SelField(info, t.X) == fItems
			}
			return false
		})
		if len(stores) == 0 && len(sinks) == 0 {
			continue
		}
		storesItems := false
		aliases := map[types.Object]bool{}
		params := map[types.Object]bool{}
		for _, f := range fi.Decl.Type.Params.List {
			for _, n := range f.Names {
				params[info.Defs[n]] = true
			}
		}
		for _, s := range stores {
			if s.fv == fItems {
				storesItems = true
				if id, ok := unparen(s.rhs).(*ast.Ident); ok && s.rhs != nil && s.tok == token.ASSIGN {
					if o := info.ObjectOf(id); o != nil && params[o] {
						reassigned := false
						ast.Inspect(fi.Decl.Body, func(n ast.Node) bool {
							if n != nil && assignsAny(info, n, map[types.Object]bool{o: true}) {
								if _, isBlock := n.(*ast.BlockStmt); !isBlock {
									reassigned = true
								}
							}
							return !reassigned
						})
						if !reassigned {
							aliases[o] = true
						}
					}
				}
			}
		}
		ev := &c19Eval{c: c, pk: pk, info: info}
		ev.field = func(_ *c19Eval, sel *ast.SelectorExpr, fv *types.Var) (c19AV, bool) {
			if _, ok := unparen(sel.X).(*ast.Ident); !ok {
				return c19AV{}, false
			}
			switch fv {
			case fIndex:
				a := c19AV{0, math.Inf(1), 0}
				if storesItems {
					a.rel = math.Inf(1) // the bound refers to the items being replaced
				}
				return a, true
			case fOffset:
				return c19AV{0, math.Inf(1), math.Inf(1)}, true
			}
			return c19AV{}, false
		}
		// len(m.items) is the length of the list the index has to fit only once items has its new value
		var curLoc *Loc
		itemsStoredBefore := func(l Loc) bool {
			for _, s := range stores {
				if s.fv == fItems {
					stmt := s.stmt
					if !g.MustPrecede(func(n ast.Node) bool { return n == ast.Node(stmt) }, l) {
						return false
					}
				}
			}
			return true
		}
		ev.lenL = func(arg ast.Expr) bool {
			if c19SelField(ev.info, arg) == fItems {
				return !storesItems || (curLoc != nil && itemsStoredBefore(*curLoc))
			}
			if id, ok := unparen(arg).(*ast.Ident); ok {
				return aliases[ev.info.ObjectOf(id)]
			}
			return false
		}
		evStore := &c19Eval{c: c, pk: pk, info: info, field: ev.field, lenL: ev.lenL}
		fl := c19NewFlow(c, g, c19WithLen(ev.bounds()))
		type pending struct {
			s    c19Store
			goal *c19Form
		}
		var pend []pending
		for _, s := range stores {
			if s.fv == fItems {
				continue
			}
			var goal *c19Form
			if l := s.lin(info); l != nil {
				goal = fl.goalAt(fl.ge0(l), s.Loc)
			}
			pend = append(pend, pending{s, goal})
		}
		// sinks
		_, hVar := c19SizeVars(g)
		type sinkGoal struct {
			h                  Hit
			low                ast.Expr
			inRange, follows   *c19Form
			isSlice, lowIsOffs bool
		}
		var sgs []sinkGoal
		for _, h := range sinks {
			sg := sinkGoal{h: h}
			var itemsExpr ast.Expr
			switch t := h.Node.(type) {
			case *ast.SliceExpr:
				sg.isSlice, sg.low, itemsExpr = true, t.Low, t.X
				if t.High != nil || t.Max != nil {
					c.undecided("C19.a", fi.Name+"/"+types.ExprString(t), t.Pos(), "a slice of items with an upper bound is not a shape this rule understands")
					continue
				}
			case *ast.IndexExpr:
				sg.low, itemsExpr = t.Index, t.X
			}
			if sg.low == nil {
				c.okTrivial("C19.a", fi.Name+"/"+c19Short(h.Node)+" within items", h.Node.Pos(), "no lower bound expression")
				continue
			}
			low := c19LinOf(info, sg.low)
			lenItems := c19LenLin(info, itemsExpr)
			sg.lowIsOffs = c19SelField(info, sg.low) == fOffset
			idxSel := c19FindSel(fi, fIndex)
			if sg.isSlice {
				alts := []*c19Form{fl.le(low.plus(lenItems, -1))} // low <= len(items)
				if idxSel != nil && !storesItems {
					alts = append(alts, fl.le(low.plus(c19LinOf(info, idxSel), -1))) // low <= index <= max(0,len-1) <= len
				}
				sg.inRange = fl.goal(c19Or(alts...))
			} else {
				sg.inRange = fl.goal(fl.le(low.plus(lenItems, -1).addK(1))) // low <= len-1
			}
			if sg.lowIsOffs && idxSel != nil && sg.isSlice {
				idx := c19LinOf(info, idxSel)
				f1 := fl.le(low.plus(idx, -1)) // offset <= index
				if hVar != nil {
					f2 := fl.le(idx.plus(low, -1).plus(c19LinOf(info, hVar), -1).addK(1)) // index - offset - height <= -1
					sg.follows = fl.goal(c19And(f1, f2))
				} else {
					sg.follows = c19U
				}
			}
			sgs = append(sgs, sg)
		}
		fl.solve()

		isIndexStoreOK := map[ast.Stmt]bool{}
		for _, p := range pend {
			s := p.s
			loc := s.Loc
			curLoc = &loc
			evStore.memo = nil
			av := s.av(evStore).norm()
			curLoc = nil
			key := fmt.Sprintf("%s/store %s >= 0", fi.Name, s.fv.Name())
			switch {
			case av.lo >= 0:
				c.ok("C19.a", key, s.stmt.Pos(), "%s: the stored value lies in [%v, %v] (fields index/offset >= 0 and len >= 0 assumed inductively)", c19Short(s.stmt), av.lo, av.hi)
			case p.goal != nil:
				fl.prove("C19.a", key, s.stmt.Pos(), s.Loc, p.goal, "stored value >= 0",
					fmt.Sprintf("List.%s can become negative (interval lower bound %v); Draw then slices items[offset:] with a negative offset and panics", s.fv.Name(), av.lo))
			default:
				c.bad("C19.a", key, s.stmt.Pos(), "the stored value has lower bound %v: List.%s can become negative", av.lo, s.fv.Name())
			}
			if s.fv == fIndex {
				key := fmt.Sprintf("%s/store index <= last item", fi.Name)
				if av.rel <= 0 {
					isIndexStoreOK[s.stmt] = true
					c.ok("C19.a", key, s.stmt.Pos(), "the stored value is bounded by max(0, len(items)-1) (slack %v)", -av.rel)
				} else {
					c.bad("C19.a", key, s.stmt.Pos(), "the stored value is not bounded by max(0, len(items)-1) (excess: %v): the selected index can leave the list, and Draw can slice beyond len(items)", av.rel)
				}
			}
		}
		for _, s := range stores {
			if s.fv != fItems {
				continue
			}
			key := fmt.Sprintf("%s/store items paired with a clamp of index", fi.Name)
			isClamp := func(n ast.Node) bool { st, ok := n.(ast.Stmt); return ok && isIndexStoreOK[st] }
			after, _ := g.MustFollow(s.Loc, isClamp)
			before := g.MustPrecede(isClamp, s.Loc)
			c.check(after || before, "C19.a", key, s.stmt.Pos(),
				"every path through the replacement of items also stores an index bounded by the new length",
				"items is replaced without re-clamping index on every path: after shrinking the list the selected index is out of range")
		}
		for _, sg := range sgs {
			h := sg.h
			name := "items[" + types.ExprString(stripRecv(sg.low)) + ":]"
			if !sg.isSlice {
				name = "items[" + types.ExprString(stripRecv(sg.low)) + "]"
			}
			av := ev.eval(sg.low)
			key := fmt.Sprintf("%s/%s lower bound >= 0", fi.Name, name)
			if av.lo >= 0 {
				c.ok("C19.a", key, h.Node.Pos(), "the bound lies in [%v, %v] by the store invariant", av.lo, av.hi)
			} else {
				fl.prove("C19.a", key, h.Node.Pos(), h.Loc, fl.ge0(c19LinOf(info, sg.low)), "bound >= 0", "a negative slice bound panics")
			}
			fl.prove("C19.a", fmt.Sprintf("%s/%s within len(items)", fi.Name, name), h.Node.Pos(), h.Loc, sg.inRange,
				"bound <= len(items) (directly, or bound <= index which never exceeds the last item)",
				"the slice bound can exceed len(items) and Draw panics (e.g. a window of height 0 or less: Window.New yields negative sizes)")
			if sg.follows == c19U {
				c.undecided("C19.e", fmt.Sprintf("%s/%s viewport follows selection", fi.Name, name), h.Node.Pos(), "no height obtained from Window.Size in this function")
			} else if sg.follows != nil {
				fl.prove("C19.e", fmt.Sprintf("%s/%s viewport follows selection", fi.Name, name), h.Node.Pos(), h.Loc, sg.follows,
					"offset <= index < offset+height", "after a selection change the selected row can lie outside the drawn rows")
			}
			if sl, ok := h.Node.(*ast.SliceExpr); ok && sg.lowIsOffs {
				if rs, ok := c.P.Parents(pk)[sl].(*ast.RangeStmt); ok && rs.X == ast.Expr(sl) {
					c19ListRows(c, fi, rs, sg.low, c19FindSel(fi, fIndex), name)
				}
			}
		}
	}
}

// c19ListRows: inside `for i := range items[offset:]` the item is drawn on row i and the highlighted row is index-offset.
func c19ListRows(c *Ctx, fi *FuncInfo, rs *ast.RangeStmt, low, idxSel ast.Expr, name string) {
	info := fi.Pkg.TypesInfo
	kid, ok := rs.Key.(*ast.Ident)
	if !ok || kid.Name == "_" || idxSel == nil {
		c.undecided("C19.e", fi.Name+"/"+name+" rows", rs.Pos(), "the range over the visible items binds no row index")
		return
	}
	key := c19LinOf(info, kid)
	want := key.plus(c19LinOf(info, idxSel), -1).plus(c19LinOf(info, low), 1) // i - index + offset
	isZero := func(l *c19Lin) bool { return len(l.ids()) == 0 && l.k == 0 }
	nCmp, nDraw := 0, 0
	ast.Inspect(rs.Body, func(n ast.Node) bool {
		switch t := n.(type) {
		case *ast.BinaryExpr:
			if (t.Op == token.EQL || t.Op == token.NEQ) && isIntegerExpr(info, t.X) && isIntegerExpr(info, t.Y) {
				l := c19Resolve(fi, c19LinOf(info, t.X).plus(c19LinOf(info, t.Y), -1))
				if kc := l.coef[termOf(info, kid).ID]; kc == 1 || kc == -1 {
					nCmp++
					okCmp := isZero(l.plus(want, -kc))
					cmsg := "the row compared with the range index is " + types.ExprString(t) + ", not index - offset: the highlighted row is not the selected item"
					if okCmp {
						cmsg = ""
					}
					cKey := fi.Name + "/" + name + " highlighted row is index - offset"
					if okCmp {
						c.ok("C19.e", cKey, t.Pos(), "the row index is compared with index - offset")
					} else {
						c.bad("C19.e", cKey, t.Pos(), "%s", cmsg)
					}
				}
			}
		case *ast.CallExpr:
			if fn := calleeOf(info, t); fn != nil && strings.HasPrefix(repoName(fn), "vaxis.Window.") {
				if arg := c19ParamArg(fn, t, "row"); arg != nil {
					nDraw++
					l := c19Resolve(fi, c19LinOf(info, arg)).plus(key, -1)
					c.check(isZero(l), "C19.e", fi.Name+"/"+name+" item i drawn on row i", t.Pos(),
						"the visible items are drawn on consecutive rows in order", "the row passed to "+fn.Name()+" is "+types.ExprString(arg)+", not the position of the item among the visible ones: items are not laid out in order and contiguously")
				}
			}
		}
		return true
	})
	if nCmp == 0 {
		c.undecided("C19.e", fi.Name+"/"+name+" highlighted row is index - offset", rs.Pos(), "no comparison of the row index with the selection found in the loop")
	}
	if nDraw == 0 {
		c.undecided("C19.e", fi.Name+"/"+name+" item i drawn on row i", rs.Pos(), "no Window drawing call with a row parameter found in the loop")
	}
}

// c19ParamArg: the argument bound to the callee parameter called name.
func c19ParamArg(fn *types.Func, call *ast.CallExpr, name string) ast.Expr {
	sig, ok := fn.Type().(*types.Signature)
	if !ok {
		return nil
	}
	for i := 0; i < sig.Params().Len() && i < len(call.Args); i++ {
		if sig.Params().At(i).Name() == name && !(sig.Variadic() && i == sig.Params().Len()-1) {
			return call.Args[i]
		}
	}
	return nil
}

// c19Resolve substitutes locals that are assigned exactly once by their defining expression.
func c19Resolve(fi *FuncInfo, l *c19Lin) *c19Lin {
	info := fi.Pkg.TypesInfo
	for round := 0; round < 3; round++ {
		changed := false
		for _, id := range l.ids() {
			t := l.tm[id]
			idn, ok := t.ex.(*ast.Ident)
			if !ok {
				continue
			}
			v, ok := info.ObjectOf(idn).(*types.Var)
			if !ok || v.IsField() || v.Parent() == fi.Pkg.Types.Scope() {
				continue
			}
			var def ast.Expr
			n := 0
			ast.Inspect(fi.Decl.Body, func(m ast.Node) bool {
				switch st := m.(type) {
				case *ast.AssignStmt:
					for i, lh := range st.Lhs {
						if li, ok := lh.(*ast.Ident); ok && info.ObjectOf(li) == v {
							n++
							if len(st.Lhs) == len(st.Rhs) && (st.Tok == token.DEFINE || st.Tok == token.ASSIGN) {
								def = st.Rhs[i]
							} else {
								n++
							}
						}
					}
				case *ast.IncDecStmt:
					if li, ok := st.X.(*ast.Ident); ok && info.ObjectOf(li) == v {
						n += 2
					}
				case *ast.RangeStmt:
					for _, kv := range []ast.Expr{st.Key, st.Value} {
						if li, ok := kv.(*ast.Ident); ok && info.ObjectOf(li) == v {
							n += 2
						}
					}
				case *ast.UnaryExpr:
					if li, ok := st.X.(*ast.Ident); ok && st.Op == token.AND && info.ObjectOf(li) == v {
						n += 2
					}
				}
				return true
			})
			if n == 1 && def != nil && isIntegerExpr(info, def) {
				c := l.coef[id]
				nl := l.clone()
				delete(nl.coef, id)
				delete(nl.tm, id)
				l = nl.plus(c19LinOf(info, def), c)
				changed = true
			}
		}
		if !changed {
			break
		}
	}
	return l
}

func c19ListLiteral(c *Ctx, info *types.Info, cl *ast.CompositeLit, st *types.Struct, pkgName string) {
	key := pkgName + "/List literal starts at index 0, offset 0"
	okAll := true
	for i, el := range cl.Elts {
		name := ""
		val := el
		if kv, ok := el.(*ast.KeyValueExpr); ok {
			if id, ok := kv.Key.(*ast.Ident); ok {
				name = id.Name
			}
			val = kv.Value
		} else if i < st.NumFields() {
			name = st.Field(i).Name()
		}
		if name == "index" || name == "offset" {
			if v, ok := constInt(info, val); !ok || v != 0 {
				okAll = false
			}
		}
	}
	c.check(okAll, "C19.a", key, cl.Pos(), "index and offset start at zero", "a List literal sets index/offset to something other than 0: not known to be inside the list")
}

// ---------------------------------------------------------------------------------------------
// C19.b — widgets/pager
// ---------------------------------------------------------------------------------------------

type c19PagerInfo struct {
	pk                     *packages.Package
	info                   *types.Info
	fLines, fOffset, fWide *types.Var
	lineT                  *types.Named
	chars                  map[*types.Var]bool  // slice fields of line
	appenders              map[*types.Func]bool // methods of line that append one element to a chars field
	layouts                map[*types.Func]bool // functions that store to Model.lines
}

func c19Pager(c *Ctx) {
	const pkgName = "widgets/pager"
	pk := c.P.Pkg(pkgName)
	if pk == nil {
		c.undecided("C19.b", pkgName, 0, "package not found")
		return
	}
	info := pk.TypesInfo
	_, st := c19StructOf(pk, "Model")
	pi := &c19PagerInfo{pk: pk, info: info, fLines: c19FieldNamed(st, "lines"), fOffset: c19FieldNamed(st, "Offset"), fWide: c19FieldNamed(st, "width"),
		chars: map[*types.Var]bool{}, appenders: map[*types.Func]bool{}, layouts: map[*types.Func]bool{}}
	if pi.fLines == nil || pi.fOffset == nil || pi.fWide == nil {
		c.undecided("C19.b", pkgName+".Model", 0, "type Model with fields lines, Offset, width not found")
		return
	}
	// the line type: element of Model.lines
	if sl, ok := pi.fLines.Type().Underlying().(*types.Slice); ok {
		el := sl.Elem()
		if p, ok := el.(*types.Pointer); ok {
			el = p.Elem()
		}
		pi.lineT, _ = el.(*types.Named)
	}
	if pi.lineT == nil {
		c.undecided("C19.b", pkgName+".Model.lines", pi.fLines.Pos(), "Model.lines is not a slice of (pointers to) a named line type")
		return
	}
	if ls, ok := pi.lineT.Underlying().(*types.Struct); ok {
		for i := 0; i < ls.NumFields(); i++ {
			if _, ok := ls.Field(i).Type().Underlying().(*types.Slice); ok {
				pi.chars[ls.Field(i)] = true
			}
		}
	}
	for _, fi := range c.P.FuncsIn(pkgName) {
		if fi.Decl.Body == nil {
			continue
		}
		if recv := c19RecvObj(fi); recv != nil {
			t := recv.Type()
			if p, ok := t.(*types.Pointer); ok {
				t = p.Elem()
			}
			if types.Identical(t, pi.lineT) && len(fi.Decl.Body.List) == 1 {
				if as, ok := fi.Decl.Body.List[0].(*ast.AssignStmt); ok && pi.isCharsAppend(as) != nil && rootObj(info, as.Lhs[0]) == recv {
					pi.appenders[fi.Obj] = true
				}
			}
		}
		if g := c19Graph(c, fi); g != nil && len(c19Stores(g, pi.fLines)) > 0 {
			pi.layouts[fi.Obj] = true
		}
	}
	nLayout, nDraw := 0, 0
	for _, fi := range c.P.FuncsIn(pkgName) {
		g := c19Graph(c, fi)
		if g == nil {
			continue
		}
		if pi.layouts[fi.Obj] {
			nLayout++
			c19PagerLayout(c, pi, fi, g)
			continue
		}
		uses := false
		ast.Inspect(fi.Decl.Body, func(n ast.Node) bool {
			switch t := n.(type) {
			case *ast.RangeStmt:
				if c19SelField(info, t.X) == pi.fLines {
					uses = true
				}
			case *ast.IndexExpr:
				if c19SelField(info, t.X) == pi.fLines {
					uses = true
				}
			case *ast.SliceExpr:
				if c19SelField(info, t.X) == pi.fLines {
					uses = true
				}
			}
			return true
		})
		if uses {
			nDraw++
			c19PagerDraw(c, pi, fi, g)
		}
	}
	if nLayout == 0 {
		c.undecided("C19.b", pkgName+"/layout", 0, "no function stores to Model.lines")
	}
	if nDraw == 0 {
		c.undecided("C19.b", pkgName+"/draw", 0, "no function iterates over Model.lines")
	}
}

// isCharsAppend: x.chars = append(x.chars, v) ; returns x.
func (pi *c19PagerInfo) isCharsAppend(as *ast.AssignStmt) ast.Expr {
	if len(as.Lhs) != 1 || len(as.Rhs) != 1 || as.Tok != token.ASSIGN {
		return nil
	}
	fv := c19SelField(pi.info, as.Lhs[0])
	if fv == nil || !pi.chars[fv] {
		return nil
	}
	call, ok := unparen(as.Rhs[0]).(*ast.CallExpr)
	if !ok || c19IsBuiltin(pi.info, call, "append") == "" || len(call.Args) < 2 {
		return nil
	}
	if c19SelField(pi.info, call.Args[0]) != fv || termOf(pi.info, call.Args[0]).ID != termOf(pi.info, as.Lhs[0]).ID {
		return nil
	}
	return unparen(as.Lhs[0]).(*ast.SelectorExpr).X
}

func (pi *c19PagerInfo) isLinePtr(t types.Type) bool {
	if p, ok := t.(*types.Pointer); ok {
		return types.Identical(p.Elem(), pi.lineT)
	}
	return false
}

// events of one CFG node of a layout function
type c19LineEvent struct {
	kind string // fresh | append | flush | reset | otherLines | otherVar
	v    types.Object
}

func (pi *c19PagerInfo) events(n ast.Node) []c19LineEvent {
	info := pi.info
	var out []c19LineEvent
	inspectNoLit(n, func(m ast.Node) bool {
		switch s := m.(type) {
		case *ast.CallExpr:
			if fn := calleeOf(info, s); fn != nil && pi.appenders[fn] {
				if sel, ok := unparen(s.Fun).(*ast.SelectorExpr); ok {
					if id, ok := unparen(sel.X).(*ast.Ident); ok {
						out = append(out, c19LineEvent{"append", info.ObjectOf(id)})
					} else {
						out = append(out, c19LineEvent{"otherVar", nil})
					}
				}
			}
		case *ast.AssignStmt:
			if x := pi.isCharsAppend(s); x != nil {
				if id, ok := unparen(x).(*ast.Ident); ok {
					out = append(out, c19LineEvent{"append", info.ObjectOf(id)})
				} else {
					out = append(out, c19LineEvent{"otherVar", nil})
				}
				return true
			}
			for i, l := range s.Lhs {
				if c19SelField(info, l) == pi.fLines {
					var rhs ast.Expr
					if len(s.Lhs) == len(s.Rhs) {
						rhs = unparen(s.Rhs[i])
					}
					out = append(out, pi.linesStore(l, rhs))
					continue
				}
				if id, ok := unparen(l).(*ast.Ident); ok && id.Name != "_" {
					if o := info.ObjectOf(id); o != nil && pi.isLinePtr(o.Type()) {
						var rhs ast.Expr
						if len(s.Lhs) == len(s.Rhs) {
							rhs = unparen(s.Rhs[i])
						}
						if pi.isFreshLine(rhs) {
							out = append(out, c19LineEvent{"fresh", o})
						} else {
							out = append(out, c19LineEvent{"otherVar", o})
						}
					}
				}
			}
		}
		return true
	})
	return out
}

func (pi *c19PagerInfo) isFreshLine(rhs ast.Expr) bool {
	switch t := rhs.(type) {
	case *ast.UnaryExpr:
		if cl, ok := unparen(t.X).(*ast.CompositeLit); ok && t.Op == token.AND {
			return len(cl.Elts) == 0 && types.Identical(pi.info.TypeOf(cl), pi.lineT)
		}
	case *ast.CallExpr:
		if c19IsBuiltin(pi.info, t, "new") != "" && len(t.Args) == 1 {
			return types.Identical(pi.info.TypeOf(t.Args[0]), pi.lineT)
		}
	}
	return false
}

func (pi *c19PagerInfo) linesStore(lhs, rhs ast.Expr) c19LineEvent {
	info := pi.info
	switch t := rhs.(type) {
	case *ast.CompositeLit:
		if len(t.Elts) == 0 {
			return c19LineEvent{"reset", nil}
		}
	case *ast.Ident:
		if isNilExpr(info, t) {
			return c19LineEvent{"reset", nil}
		}
	case *ast.SliceExpr:
		if c19SelField(info, t.X) == pi.fLines && t.Low == nil && t.High != nil {
			if v, ok := constInt(info, t.High); ok && v == 0 {
				return c19LineEvent{"reset", nil}
			}
		}
	case *ast.CallExpr:
		if c19IsBuiltin(info, t, "make") != "" && len(t.Args) >= 2 {
			if v, ok := constInt(info, t.Args[1]); ok && v == 0 {
				return c19LineEvent{"reset", nil}
			}
		}
		if c19IsBuiltin(info, t, "append") != "" && len(t.Args) == 2 && t.Ellipsis == token.NoPos &&
			c19SelField(info, t.Args[0]) == pi.fLines && termOf(info, t.Args[0]).ID == termOf(info, lhs).ID {
			if id, ok := unparen(t.Args[1]).(*ast.Ident); ok {
				return c19LineEvent{"flush", info.ObjectOf(id)}
			}
		}
	}
	return c19LineEvent{"otherLines", nil}
}

const (
	c19LineFresh   = 0
	c19LineDirty   = 1
	c19LineFlushed = 2
)

func c19PagerLayout(c *Ctx, pi *c19PagerInfo, fi *FuncInfo, g *FG) {
	info := pi.info
	type site struct {
		Loc
		n  ast.Node
		ev c19LineEvent
	}
	var sites []site
	var lineVar types.Object
	undec := ""
	for _, b := range g.Blocks {
		for i, n := range b.Nodes {
			for _, ev := range pi.events(n) {
				sites = append(sites, site{Loc{b, i}, n, ev})
				switch ev.kind {
				case "otherLines":
					undec = "a store to Model.lines that is neither a reset nor lines = append(lines, l): " + c19Short(n)
				case "otherVar":
					undec = "a line variable is assigned something other than a fresh &line{}: " + c19Short(n)
				case "flush", "append", "fresh":
					if lineVar == nil {
						lineVar = ev.v
					} else if ev.v != lineVar {
						undec = "more than one pending-line variable"
					}
				}
			}
		}
	}
	nAppend := 0
	for _, s := range sites {
		if s.ev.kind == "append" {
			nAppend++
		}
	}
	if undec == "" && nAppend == 0 {
		undec = "no append of a cell to the pending line was recognised (a method of the line type whose body is x.chars = append(x.chars, v), or that statement inline)"
	}
	if undec != "" || lineVar == nil {
		if undec == "" {
			undec = "no pending-line variable found"
		}
		c.undecided("C19.b", fi.Name+"/pending line typestate", fi.Decl.Pos(), "%s", undec)
		return
	}
	fl := c19NewFlow(c, g, c19WithLen(c19TypeBounds(c, pi.pk)))
	fl.seedRoot[lineVar] = true
	fl.ghostInit = c19LineFresh
	fl.ghost = func(n ast.Node, st uint32) []uint32 {
		evs := pi.events(n)
		if len(evs) == 0 {
			return nil
		}
		gs := st >> c19GhostShift & 3
		for _, ev := range evs {
			switch ev.kind {
			case "fresh":
				gs = c19LineFresh
			case "append":
				if gs == c19LineFresh {
					gs = c19LineDirty
				}
			case "flush":
				gs = c19LineFlushed
			}
		}
		return []uint32{st&^(3<<c19GhostShift) | gs<<c19GhostShift}
	}
	// dirty implies len(l.chars) >= 1, fresh implies len(l.chars) == 0
	var lenBase *c19Lin
	lenSearched := false
	fl.feasibleX = func(fl *c19Flow, st uint32) bool {
		if !lenSearched {
			lenSearched = true
			for _, p := range fl.tracked {
				if p.kind == "bool" || len(p.terms) != 1 || !p.terms[0].isLen || p.base.coef[p.terms[0].id] != 1 {
					continue
				}
				for _, rp := range p.terms[0].paths {
					if rp.root == lineVar && len(rp.path) == 1 {
						lenBase = p.base
					}
				}
			}
		}
		if lenBase == nil {
			return true
		}
		lo, hi := fl.interval(st, lenBase, c19BaseKey(lenBase))
		switch st >> c19GhostShift & 3 {
		case c19LineDirty:
			return hi >= 1
		case c19LineFresh:
			return lo <= 0
		}
		return true
	}
	// the column counter: a local compared with Model.width
	var colObj types.Object
	var colLtWidth *c19Form
	for _, b := range g.Blocks {
		cnd := g.BranchCond(b)
		if cnd == nil || cnd.Tag != nil {
			continue
		}
		inspectNoLit(cnd.Expr, func(n ast.Node) bool {
			be, ok := n.(*ast.BinaryExpr)
			if !ok || !isIntegerExpr(info, be.X) || !isIntegerExpr(info, be.Y) {
				return true
			}
			switch be.Op {
			case token.LSS, token.LEQ, token.GTR, token.GEQ, token.EQL, token.NEQ:
			default:
				return true
			}
			l := c19LinOf(info, be.X).plus(c19LinOf(info, be.Y), -1)
			var widthT, colT *c19Term
			for _, id := range l.ids() {
				t := l.tm[id]
				if c19SelField(info, t.ex) == pi.fWide {
					widthT = t
				} else if idn, ok := t.ex.(*ast.Ident); ok && len(l.ids()) == 2 {
					if v, ok := info.ObjectOf(idn).(*types.Var); ok && !v.IsField() && v.Parent() != pi.pk.Types.Scope() {
						colT = t
					}
				}
			}
			if widthT != nil && colT != nil && colObj == nil {
				colObj = info.ObjectOf(colT.ex.(*ast.Ident))
				colLtWidth = fl.goal(fl.le(c19LinOf(info, colT.ex).plus(c19LinOf(info, widthT.ex), -1).addK(1)))
			}
			return true
		})
	}
	fl.solve()
	if fl.err != "" {
		c.undecided("C19.b", fi.Name+"/pending line typestate", fi.Decl.Pos(), "%s", fl.err)
		return
	}
	ghostOf := func(st uint32) uint32 { return st >> c19GhostShift & 3 }
	anyGhost := func(sts map[uint32]bool, want uint32) bool {
		for st := range sts {
			if ghostOf(st) == want {
				return true
			}
		}
		return false
	}
	lname := lineVar.Name()
	// exits
	if len(fl.exitStates()) == 0 {
		c.undecided("C19.b", fi.Name+"/pending line flushed at return", fi.Decl.Body.Rbrace, "no abstract state reaches a return of %s", fi.Name)
		return
	}
	c.check(!anyGhost(fl.exitStates(), c19LineDirty), "C19.b", fi.Name+"/pending line flushed at return", fi.Decl.Body.Rbrace,
		"no path reaches a return with cells appended to "+lname+" that were not stored in lines",
		"a path from "+lname+".append to return skips lines = append(lines, "+lname+"): a last line without terminator (or shorter than the width) is never presented")
	var flushes []site
	for _, s := range sites {
		pre := fl.statesAt(s.Loc)
		if len(pre) == 0 && s.ev.kind != "reset" {
			c.undecided("C19.b", fi.Name+"/"+s.ev.kind+" site reachable", s.n.Pos(), "no abstract state reaches %s", c19Short(s.n))
			continue
		}
		switch s.ev.kind {
		case "fresh":
			c.check(!anyGhost(pre, c19LineDirty), "C19.b", fi.Name+"/fresh line replaces only a stored or empty line", s.n.Pos(),
				"the line variable is never overwritten while it holds unstored cells", "a line holding cells that were not stored in lines is overwritten: text is lost")
		case "append":
			c.check(!anyGhost(pre, c19LineFlushed), "C19.b", fi.Name+"/append goes to an unstored line", s.n.Pos(),
				"cells are appended only to a line that is not yet in lines", "cells are appended to a line that is already stored in lines: the line break is lost and a later flush stores the line twice")
			if colLtWidth == nil {
				c.undecided("C19.b", fi.Name+"/line closed when col >= width", s.n.Pos(), "no comparison of a local column counter with Model.width found")
			} else {
				okAll, wit := true, ""
				var sts []uint32
				for st := range pre {
					sts = append(sts, st)
				}
				sort.Slice(sts, func(i, j int) bool { return sts[i] < sts[j] })
				for _, st := range sts {
					if okAll && ghostOf(st) == c19LineDirty && fl.eval3(colLtWidth, st) != 1 {
						okAll, wit = false, fl.describe(st)
					}
				}
				c.check(okAll, "C19.b", fi.Name+"/line closed when col >= width", s.n.Pos(),
					"a cell is appended to a non-empty line only while "+colObj.Name()+" < width",
					"a cell can be appended to a non-empty line although "+colObj.Name()+" >= width ("+wit+"): the line is longer than the window and its tail is clipped")
			}
		case "flush":
			flushes = append(flushes, s)
			c.check(!anyGhost(pre, c19LineFlushed), "C19.b", fi.Name+"/line stored once", s.n.Pos(),
				"a line is stored in lines at most once", "the same line can be stored in lines twice")
			isReset := func(n ast.Node) bool {
				for _, ev := range pi.events(n) {
					if ev.kind == "reset" {
						return true
					}
				}
				return false
			}
			c.check(g.MustPrecede(isReset, s.Loc), "C19.b", fi.Name+"/lines reset before flush", s.n.Pos(),
				"every path to the flush has emptied lines first", "lines is not emptied before lines are appended: a second Layout (every width change) duplicates the text")
		case "reset":
			c.check(!g.inLoopWith(s.B, nil), "C19.b", fi.Name+"/lines reset outside the loops", s.n.Pos(),
				"lines is emptied once, not per character", "lines is emptied inside a loop: earlier lines are dropped")
		}
	}
	// the column counter advances with every appended cell, before it is tested or the next cell is appended
	if colObj != nil {
		for _, s := range sites {
			if s.ev.kind != "append" {
				continue
			}
			bad := ""
			g.walk(Loc{s.B, s.Idx + 1}, func(l Loc, n ast.Node) bool {
				switch st := n.(type) {
				case *ast.AssignStmt:
					if len(st.Lhs) == 1 && len(st.Rhs) == 1 {
						if id, ok := st.Lhs[0].(*ast.Ident); ok && info.ObjectOf(id) == colObj {
							adds := st.Tok == token.ADD_ASSIGN
							if st.Tok == token.ASSIGN {
								l := c19LinOf(info, st.Rhs[0])
								adds = l.coef[termOf(info, id).ID] == 1 && len(l.ids()) > 1
							}
							if adds {
								return false
							}
						}
					}
				case *ast.IncDecStmt:
					if id, ok := st.X.(*ast.Ident); ok && info.ObjectOf(id) == colObj && st.Tok == token.INC {
						return false
					}
				}
				uses := false
				inspectNoLit(n, func(m ast.Node) bool {
					if id, ok := m.(*ast.Ident); ok && info.Uses[id] == colObj {
						uses = true
					}
					return true
				})
				isApp := false
				for _, ev := range pi.events(n) {
					if ev.kind == "append" {
						isApp = true
					}
				}
				if (uses || isApp) && bad == "" {
					bad = c19Short(n)
					return false
				}
				return true
			}, nil)
			c.check(bad == "", "C19.b", fi.Name+"/column advances with each cell", s.n.Pos(),
				colObj.Name()+" is increased after the append before it is tested again",
				colObj.Name()+" is tested or the next cell appended ("+bad+") without having been advanced by the cell's width: lines never fill up and are not wrapped at the window width")
		}
	}
	// the column counter restarts after every flush
	if colObj != nil {
		for _, s := range flushes {
			bad := ""
			g.walk(Loc{s.B, s.Idx + 1}, func(l Loc, n ast.Node) bool {
				if as, ok := n.(*ast.AssignStmt); ok && len(as.Lhs) == 1 && len(as.Rhs) == 1 && (as.Tok == token.ASSIGN || as.Tok == token.DEFINE) {
					if id, ok := as.Lhs[0].(*ast.Ident); ok && info.ObjectOf(id) == colObj {
						if v, ok := constInt(info, as.Rhs[0]); ok && v == 0 {
							return false
						}
					}
				}
				uses := false
				inspectNoLit(n, func(m ast.Node) bool {
					if id, ok := m.(*ast.Ident); ok && info.Uses[id] == colObj {
						uses = true
					}
					return true
				})
				if uses && bad == "" {
					bad = c19Short(n)
					return false
				}
				return true
			}, nil)
			c.check(bad == "", "C19.b", fi.Name+"/column restarts after flush", s.n.Pos(),
				colObj.Name()+" = 0 follows the flush before "+colObj.Name()+" is used again",
				colObj.Name()+" is used again ("+bad+") after a flush without being reset to 0: every following cell closes its own line")
		}
	}
}

func c19PagerDraw(c *Ctx, pi *c19PagerInfo, fi *FuncInfo, g *FG) {
	info := pi.info
	recv := c19RecvObj(fi)
	offSel := c19FindSel(fi, pi.fOffset)
	var sinks []Loc
	var sinkPos []token.Pos
	var linesExpr ast.Expr
	ast.Inspect(fi.Decl.Body, func(n ast.Node) bool {
		var x ast.Expr
		switch t := n.(type) {
		case *ast.RangeStmt:
			x = t.X
		case *ast.IndexExpr:
			x = t.X
		case *ast.SliceExpr:
			x = t.X
		}
		if x != nil && c19SelField(info, x) == pi.fLines {
			if l, ok := g.Locate(x); ok {
				sinks = append(sinks, l)
				sinkPos = append(sinkPos, x.Pos())
				linesExpr = x
			}
		}
		return true
	})
	if recv == nil || offSel == nil || len(sinks) == 0 {
		c.undecided("C19.b", fi.Name+"/offset clamped", fi.Decl.Pos(), "the function reads Model.lines but no use of Offset (or no receiver) was found")
		return
	}
	wVar, hVar := c19SizeVars(g)
	fl := c19NewFlow(c, g, c19WithLen(c19TypeBounds(c, pi.pk)))
	off := c19LinOf(info, offSel)
	lenLines := c19LenLin(info, linesExpr)
	nonNeg := fl.goal(fl.ge0(off))
	alts := []*c19Form{fl.eq(off), fl.ge0(lenLines.plus(off, -1).addK(-1))} // Offset == 0 or len(lines)-Offset >= 1
	if hVar != nil {
		alts = append(alts, fl.ge0(lenLines.plus(off, -1).plus(c19LinOf(info, hVar), -1))) // len(lines)-Offset >= h
	}
	clamped := fl.goal(c19Or(alts...))
	// layout for the current width
	widthStores := c19Stores(g, pi.fWide)
	isLayoutCall := func(n ast.Node) bool {
		call, ok := n.(*ast.CallExpr)
		if !ok {
			return false
		}
		fn := calleeOf(info, call)
		return fn != nil && pi.layouts[fn]
	}
	layoutCalls := g.Find(isLayoutCall)
	var sameWidth *c19Form
	if wVar != nil && len(widthStores) > 0 {
		sameWidth = fl.goal(fl.eq(c19LinOf(info, wVar).plus(c19LinOf(info, widthStores[0].lhs), -1)))
	}
	fl.solve()
	for i, l := range sinks {
		fl.prove("C19.b", fi.Name+"/Offset >= 0 at the draw loop", sinkPos[i], l, nonNeg, "Offset >= 0",
			"rows are drawn at row-Offset with a negative Offset (ScrollUp decrements without bound): the text is shifted down instead of clamped")
		fl.prove("C19.b", fi.Name+"/Offset clamped to the content at the draw loop", sinkPos[i], l, clamped, "Offset == 0, or Offset <= len(lines)-h, or Offset < len(lines)",
			"the scroll offset can point beyond the content (ScrollDown increments without bound)")
		if sameWidth != nil {
			fl.prove("C19.b", fi.Name+"/lines laid out for the window width at the draw loop", sinkPos[i], l, sameWidth, "recorded width == window width",
				"the lines were wrapped for another width than the window's")
		}
	}
	// every line is drawn at row - Offset
	nSet := 0
	ast.Inspect(fi.Decl.Body, func(n ast.Node) bool {
		rs, ok := n.(*ast.RangeStmt)
		if !ok || c19SelField(info, rs.X) != pi.fLines {
			return true
		}
		kid, ok := rs.Key.(*ast.Ident)
		if !ok || kid.Name == "_" {
			return true
		}
		want := c19LinOf(info, kid).plus(off, -1)
		ast.Inspect(rs.Body, func(m ast.Node) bool {
			call, ok := m.(*ast.CallExpr)
			if !ok {
				return true
			}
			fn := calleeOf(info, call)
			if fn == nil || !strings.HasPrefix(repoName(fn), "vaxis.Window.") {
				return true
			}
			if arg := c19ParamArg(fn, call, "row"); arg != nil {
				nSet++
				l := c19Resolve(fi, c19LinOf(info, arg)).plus(want, -1)
				c.check(len(l.ids()) == 0 && l.k == 0, "C19.b", fi.Name+"/line drawn at row - Offset", call.Pos(),
					"the row passed to "+fn.Name()+" is the line number minus Offset", "the row passed to "+fn.Name()+" is "+types.ExprString(arg)+", not the line number minus Offset: lines are not presented in order from the scroll offset")
			}
			return true
		})
		return true
	})
	if nSet == 0 {
		c.undecided("C19.b", fi.Name+"/line drawn at row - Offset", fi.Decl.Pos(), "no Window drawing call with a row parameter inside a range over lines")
	}
	if len(layoutCalls) == 0 || wVar == nil || len(widthStores) == 0 {
		c.bad("C19.b", fi.Name+"/relayout on width change", fi.Decl.Pos(), "the draw function does not record the window width and call the layout function: the text is never wrapped at the window width (width is unexported, only this function can set it)")
		return
	}
	for _, ws := range widthStores {
		fromSize := false
		if id, ok := unparen(ws.rhs).(*ast.Ident); ok && ws.rhs != nil && info.ObjectOf(id) == info.ObjectOf(wVar) {
			fromSize = true
		}
		reach := false
		for _, l := range sinks {
			if g.ReachesAvoiding(ws.Loc, l, isLayoutCall) {
				reach = true
			}
		}
		c.check(fromSize && !reach, "C19.b", fi.Name+"/width store followed by layout", ws.stmt.Pos(),
			"the width recorded is the window's and every path from the store to the draw loop lays the text out again",
			"the recorded width is not the first result of Window.Size, or the draw loop is reachable from the store without a new layout: the text is wrapped at a stale width")
	}
	for _, h := range layoutCalls {
		isWidthStore := func(n ast.Node) bool {
			for _, ws := range widthStores {
				if n == ast.Node(ws.stmt) {
					return true
				}
			}
			return false
		}
		c.check(g.MustPrecede(isWidthStore, h.Loc), "C19.b", fi.Name+"/layout uses the recorded width", h.Node.Pos(),
			"the width is stored before the layout function reads it", "the layout function is called before the window width is recorded: it wraps at the previous width")
	}
}

// ---------------------------------------------------------------------------------------------
// C19.c — vxfw/list
// ---------------------------------------------------------------------------------------------

type c19Sink struct {
	Loc
	pos  token.Pos
	desc string
	kind string // index | state | signed
}

type c19Sub struct {
	a, b   *c19Lin
	text   string
	pos    token.Pos
	def    Loc
	sinks  []c19Sink
	note   string // why it is not a sink
	ctx    string // enclosing boolean-field condition, for the key
	isStmt bool   // x -= e / x--
}

func c19VxfwList(c *Ctx) {
	const pkgName = "vxfw/list"
	pk := c.P.Pkg(pkgName)
	if pk == nil {
		c.undecided("C19.c", pkgName, 0, "package not found")
		return
	}
	info := pk.TypesInfo
	_, st := c19StructOf(pk, "Dynamic")
	fCursor, fScroll := c19FieldNamed(st, "cursor"), c19FieldNamed(st, "scroll")
	var sst *types.Struct
	if fScroll != nil {
		sst, _ = fScroll.Type().Underlying().(*types.Struct)
	}
	fTop, fOff, fPending, fWants := c19FieldNamed(sst, "top"), c19FieldNamed(sst, "offset"), c19FieldNamed(sst, "pending"), c19FieldNamed(sst, "wantsCursor")
	if fCursor == nil || fTop == nil || fOff == nil || fPending == nil || fWants == nil {
		c.undecided("C19.c", pkgName+".Dynamic", 0, "type Dynamic with cursor and scroll{top,offset,pending,wantsCursor} not found")
		return
	}
	parents := c.P.Parents(pk)
	bounds := c19WithLen(c19TypeBounds(c, pk))
	funcs := c.P.FuncsIn(pkgName)

	// ---- ensureScroll-like functions: those that raise wantsCursor
	ensure := map[*types.Func]bool{}
	isTrueStore := func(s c19Store) bool {
		v, ok := c19BoolConst(info, s.rhs)
		return s.rhs != nil && ok && v
	}
	for _, fi := range funcs {
		if g := c19Graph(c, fi); g != nil {
			for _, s := range c19Stores(g, fWants) {
				if isTrueStore(s) {
					ensure[fi.Obj] = true
				}
			}
		}
	}
	isEnsureCall := func(n ast.Node) bool {
		call, ok := n.(*ast.CallExpr)
		if !ok {
			return false
		}
		fn := calleeOf(info, call)
		return fn != nil && ensure[fn]
	}
	if len(ensure) == 0 {
		c.undecided("C19.c", pkgName+"/ensureScroll", 0, "no function raises scroll.wantsCursor: the re-anchoring mechanism was not found")
	}

	r1OK, r3OK := true, true
	// ---- R1 and the exit condition of the ensure functions
	for _, fi := range funcs {
		if !ensure[fi.Obj] {
			continue
		}
		g := c19Graph(c, fi)
		curSel, topSel := c19FindSel(fi, fCursor), c19FindSel(fi, fTop)
		if curSel == nil || topSel == nil {
			c.undecided("C19.c", fi.Name+"/wantsCursor raised only when cursor >= top", fi.Decl.Pos(), "the function does not mention cursor and scroll.top")
			r1OK = false
			continue
		}
		fl := c19NewFlow(c, g, bounds)
		diff := c19LinOf(info, topSel).plus(c19LinOf(info, curSel), -1) // top - cursor
		below := fl.goal(fl.le(diff))
		same := fl.goal(fl.eq(diff))
		fl.ghost = func(n ast.Node, st uint32) []uint32 {
			if as, ok := n.(*ast.AssignStmt); ok {
				for i, l := range as.Lhs {
					if c19SelField(info, l) == fWants && len(as.Lhs) == len(as.Rhs) {
						if v, ok := c19BoolConst(info, as.Rhs[i]); ok && v {
							return []uint32{st | 1<<c19GhostShift}
						}
					}
				}
			}
			return nil
		}
		fl.solve()
		for _, s := range c19Stores(g, fWants) {
			if !isTrueStore(s) {
				continue
			}
			if !fl.prove("C19.c", fi.Name+"/wantsCursor raised only when cursor >= top", s.stmt.Pos(), s.Loc, below, "scroll.top <= cursor",
				"wantsCursor can be raised with the cursor above the top item; Draw then computes cursor - top on unsigned operands and indexes Children with the wrapped value") {
				r1OK = false
			}
		}
		if fl.err == "" {
			okAll, wit := true, ""
			var sts []uint32
			for st := range fl.exitStates() {
				sts = append(sts, st)
			}
			if len(sts) == 0 {
				c.undecided("C19.c", fi.Name+"/returns with wantsCursor raised or top == cursor", fi.Decl.Pos(), "no abstract state reaches a return")
			}
			sort.Slice(sts, func(i, j int) bool { return sts[i] < sts[j] })
			for _, st := range sts {
				if st>>c19GhostShift&1 == 0 && fl.eval3(same, st) != 1 {
					okAll, wit = false, fl.describe(st)
				}
			}
			c.check(okAll, "C19.c", fi.Name+"/returns with wantsCursor raised or top == cursor", fi.Decl.Pos(),
				"every return has either raised wantsCursor or re-anchored scroll.top = cursor",
				"a return is reachable with neither wantsCursor raised nor top = cursor ("+wit+"): after a selection change the next draw does not bring the selected item into view")
		}
		isOffZero := func(n ast.Node) bool {
			as, ok := n.(*ast.AssignStmt)
			if !ok || len(as.Lhs) != 1 || len(as.Rhs) != 1 || as.Tok != token.ASSIGN || c19SelField(info, as.Lhs[0]) != fOff {
				return false
			}
			v, ok := constInt(info, as.Rhs[0])
			return ok && v == 0
		}
		for _, s := range c19Stores(g, fTop) {
			after, _ := g.MustFollow(s.Loc, isOffZero)
			c.check(after || g.MustPrecede(isOffZero, s.Loc), "C19.c", fi.Name+"/re-anchoring top resets the line offset", s.stmt.Pos(),
				"scroll.offset = 0 accompanies the store to scroll.top", "scroll.top is re-anchored without scroll.offset = 0: the selected item is drawn scrolled by the stale line offset and can be cut off or invisible")
		}
	}
	// ---- R3: every store to cursor is followed by an ensure call
	for _, fi := range funcs {
		g := c19Graph(c, fi)
		if g == nil {
			continue
		}
		for _, s := range c19Stores(g, fCursor) {
			ok, _ := g.MustFollow(s.Loc, isEnsureCall)
			if !c.check(ok, "C19.c", fi.Name+"/store cursor followed by ensureScroll", s.stmt.Pos(),
				"every path from the store to a return calls the function that re-anchors the scroll state",
				"the cursor is changed without ensureScroll on some path: the selected item is not brought into view by the next draw (and cursor < top can reach the unsigned subtraction in Draw)") {
				r3OK = false
			}
		}
		// pending is reset after it is read
		reads := g.Find(func(n ast.Node) bool {
			e, ok := n.(ast.Expr)
			if !ok || c19SelField(info, e) != fPending {
				return false
			}
			switch p := parents[n].(type) {
			case *ast.AssignStmt:
				for _, l := range p.Lhs {
					if l == e {
						return false
					}
				}
			case *ast.IncDecStmt:
				return false
			}
			return true
		})
		isPendingZero := func(n ast.Node) bool {
			as, ok := n.(*ast.AssignStmt)
			if !ok || len(as.Lhs) != 1 || len(as.Rhs) != 1 || as.Tok != token.ASSIGN || c19SelField(info, as.Lhs[0]) != fPending {
				return false
			}
			v, ok := constInt(info, as.Rhs[0])
			return ok && v == 0
		}
		for _, h := range reads {
			ok, _ := g.MustFollow(h.Loc, isPendingZero)
			c.check(ok, "C19.c", fi.Name+"/pending scroll reset after use", h.Node.Pos(),
				"scroll.pending = 0 follows the read on every path", "the pending scroll amount is applied but not reset on some path: the next draw scrolls again and moves a freshly selected item out of view")
		}
	}

	// ---- stores to scroll.top (for the wantsCursor exception)
	type topStore struct {
		fi *FuncInfo
		g  *FG
		s  c19Store
	}
	var topStores []topStore
	for _, fi := range funcs {
		if g := c19Graph(c, fi); g != nil {
			for _, s := range c19Stores(g, fTop) {
				topStores = append(topStores, topStore{fi, g, s})
			}
		}
	}

	// ---- unsigned subtractions and index expressions, per function
	for _, fi := range funcs {
		g := c19Graph(c, fi)
		if g == nil {
			continue
		}
		recv := c19RecvObj(fi)
		subs := c19FindSubs(c, fi, g, parents, recv)
		type idxGoal struct {
			h        Hit
			lo, hi   *c19Form
			loByType bool
			name     string
		}
		var idxs []idxGoal
		fl := c19NewFlow(c, g, bounds)
		for _, h := range g.Find(func(n ast.Node) bool { _, ok := n.(*ast.IndexExpr); return ok }) {
			ie := h.Node.(*ast.IndexExpr)
			t := info.TypeOf(ie.X)
			if t == nil {
				continue
			}
			if _, ok := t.Underlying().(*types.Slice); !ok {
				continue
			}
			name := types.ExprString(stripRecv(ie))
			if c19IsRangeKey(info, parents, ie) {
				c.okTrivial("C19.c", fi.Name+"/"+name+" within bounds", ie.Pos(), "the index is the key of the enclosing range over the same slice")
				continue
			}
			il := c19LinOf(info, ie.Index)
			ig := idxGoal{h: h, name: name}
			if il.lower(bounds) >= 0 {
				ig.loByType = true
			} else {
				ig.lo = fl.goalAt(fl.ge0(il), h.Loc)
			}
			ig.hi = fl.goalAt(fl.le(il.plus(c19LenLin(info, ie.X), -1).addK(1)), h.Loc)
			idxs = append(idxs, ig)
		}
		if len(subs) == 0 && len(idxs) == 0 {
			continue
		}
		var goals []*c19Form
		for _, sb := range subs {
			gf := fl.goal(fl.ge0(sb.a.plus(sb.b, -1)))
			for _, sk := range sb.sinks {
				fl.goalAt(gf, sk.Loc)
			}
			goals = append(goals, gf)
		}
		var wantsAtom *c19Form
		if ws := c19FindSel(fi, fWants); ws != nil {
			wantsAtom = fl.goal(fl.boolAtom(ws))
		}
		fl.solve()
		for _, ig := range idxs {
			if ig.loByType {
				c.okTrivial("C19.c", fi.Name+"/"+ig.name+" index >= 0", ig.h.Node.Pos(), "the index is unsigned or a length")
			} else {
				fl.prove("C19.c", fi.Name+"/"+ig.name+" index >= 0", ig.h.Node.Pos(), ig.h.Loc, ig.lo, "index >= 0",
					"the index can be -1 (the slice can be empty here: a Builder that returns nil for the item above the top, e.g. after the items were replaced by fewer) and Draw panics")
			}
			fl.prove("C19.c", fi.Name+"/"+ig.name+" index < len", ig.h.Node.Pos(), ig.h.Loc, ig.hi, "index < len",
				"the index can reach len of the slice and Draw panics")
		}
		for i, sb := range subs {
			key := fi.Name + "/" + sb.text
			if sb.ctx != "" {
				key += " under " + sb.ctx
			}
			if len(sb.sinks) == 0 {
				c.okTrivial("C19.c", key+" not an index", sb.pos, "unsigned subtraction that reaches neither an index nor the scroll state (%s)", sb.note)
				continue
			}
			if sb.note != "" {
				c.undecided("C19.c", key, sb.pos, "%s", sb.note)
				continue
			}
			seenDesc := map[string]bool{}
			var sinks []c19Sink
			// several uses of the same shape (read and write of Children[idx]) are one obligation: report the first that fails
			for pass := 0; pass < 2; pass++ {
				for _, sk := range sb.sinks {
					if seenDesc[sk.desc] {
						continue
					}
					failing := false
					if fl.err == "" {
						okHere, _ := fl.holds(fl.statesAt(sk.Loc), goals[i])
						failing = !okHere
					}
					if pass == 0 && !failing {
						continue
					}
					seenDesc[sk.desc] = true
					sinks = append(sinks, sk)
				}
			}
			for _, sk := range sinks {
				skey := key + " reaches " + sk.desc
				if fl.err != "" {
					c.undecided("C19.c", skey, sk.pos, "the flow analysis does not understand %s: %s", fi.Name, fl.err)
					continue
				}
				// operands unchanged between the subtraction and the sink
				if sk.Loc != sb.def && c19ChangedBetween(fl, g, sb, sk.Loc) {
					c.undecided("C19.c", skey, sk.pos, "an operand of %s is modified between the subtraction and its use", sb.text)
					continue
				}
				sts := fl.statesAt(sk.Loc)
				if len(sts) == 0 {
					c.undecided("C19.c", skey, sk.pos, "no abstract state reaches the use in %s", fi.Name)
					continue
				}
				ok, wit := fl.holds(sts, goals[i])
				if ok {
					c.ok("C19.c", skey, sk.pos, "%s holds in all %d abstract states reaching the use (predicates tracked: %d)", goals[i], len(sts), len(fl.tracked))
					continue
				}
				// exception 1: a decrement at the function entry is a precondition of the function
				if sb.isStmt && sk.kind == "state" && c19AtEntry(fl, g, sb) {
					c19LiftToCallers(c, pk, fi, recv, sb, skey, bounds)
					continue
				}
				// exception 2: the wantsCursor site
				if wantsAtom != nil {
					if under, _ := fl.holds(sts, wantsAtom); under && c19IsCursorMinusTop(info, sb, fCursor, fTop) {
						why := ""
						for _, ts := range topStores {
							switch {
							case ensure[ts.fi.Obj] && ts.s.tok == token.ASSIGN && c19SelField(info, ts.s.rhs) == fCursor:
							case ts.s.tok == token.DEC:
							case ts.s.tok == token.SUB_ASSIGN && func() bool { v, ok := constInt(info, ts.s.rhs); return ok && v >= 0 }():
							case ts.fi == fi && !g.ReachesAvoiding(ts.s.Loc, sk.Loc, nil):
							default:
								why = "the store " + c19Short(ts.s.stmt) + " in " + ts.fi.Name + " can raise scroll.top above the cursor before this use"
							}
						}
						if !r1OK {
							why = "wantsCursor is not raised only under cursor >= top"
						}
						if !r3OK {
							why = "a store to cursor is not followed by ensureScroll"
						}
						if why == "" {
							c.ok("C19.c", skey, sk.pos, "listed exception: the use is dominated by scroll.wantsCursor, which is raised only under cursor >= top (obligation above); every store to cursor is followed by ensureScroll; every store to scroll.top is top = cursor, a decrement, or lies after this use in the same draw (where top+i stays below the cursor while wantsCursor remains raised)")
							continue
						}
						c.bad("C19.c", skey, sk.pos, "cursor - top is unguarded and the exception argument for the wantsCursor site no longer holds: %s", why)
						continue
					}
				}
				c.bad("C19.c", skey, sk.pos, "%s is computed on unsigned operands and used (%s) without a guard ordering them: %s reachable with %s; when the left operand is smaller the value wraps to about 2^64 (e.g. cursor 0, wheel scroll past it, draw) and the index panics or the scroll state is corrupted", sb.text, sk.desc, goals[i], wit)
			}
		}
	}
}

func c19IsCursorMinusTop(info *types.Info, sb *c19Sub, fCursor, fTop *types.Var) bool {
	ia, ib := sb.a.ids(), sb.b.ids()
	if len(ia) != 1 || len(ib) != 1 || sb.a.k != 0 || sb.b.k != 0 {
		return false
	}
	return c19SelField(info, sb.a.tm[ia[0]].ex) == fCursor && c19SelField(info, sb.b.tm[ib[0]].ex) == fTop
}

func c19IsRangeKey(info *types.Info, parents map[ast.Node]ast.Node, ie *ast.IndexExpr) bool {
	id, ok := unparen(ie.Index).(*ast.Ident)
	if !ok {
		return false
	}
	o := info.ObjectOf(id)
	for cur := parents[ie]; cur != nil; cur = parents[cur] {
		if rs, ok := cur.(*ast.RangeStmt); ok && rs.Key != nil {
			if kid, ok := rs.Key.(*ast.Ident); ok && info.ObjectOf(kid) == o && termOf(info, rs.X).ID == termOf(info, ie.X).ID {
				// the key must not be reassigned and the slice not re-sliced in the body: keep it simple
				reassigned := false
				ast.Inspect(rs.Body, func(n ast.Node) bool {
					if n != nil && assignsAny(info, n, map[types.Object]bool{o: true}) {
						if _, blk := n.(*ast.BlockStmt); !blk {
							reassigned = true
						}
					}
					return !reassigned
				})
				return !reassigned
			}
		}
	}
	return false
}

func c19FindSubs(c *Ctx, fi *FuncInfo, g *FG, parents map[ast.Node]ast.Node, recv types.Object) []*c19Sub {
	info := g.Info
	var out []*c19Sub
	ctxOf := func(n ast.Node) string {
		for cur := parents[n]; cur != nil; cur = parents[cur] {
			if is, ok := cur.(*ast.IfStmt); ok {
				if fv := c19SelField(info, is.Cond); fv != nil && c19IsBoolType(fv.Type()) {
					return fv.Name()
				}
			}
			if _, ok := cur.(*ast.FuncDecl); ok {
				break
			}
		}
		return ""
	}
	isState := func(e ast.Expr) bool {
		p, ok := c19Chain(info, e)
		return ok && recv != nil && p.root == recv && len(p.path) > 0
	}
	for _, h := range g.Find(func(n ast.Node) bool {
		switch t := n.(type) {
		case *ast.BinaryExpr:
			if t.Op != token.SUB || !c19IsUnsigned(info.TypeOf(t)) {
				return false
			}
			_, isConst := constInt(info, t)
			return !isConst
		case *ast.AssignStmt:
			return t.Tok == token.SUB_ASSIGN && len(t.Lhs) == 1 && c19IsUnsigned(info.TypeOf(t.Lhs[0]))
		case *ast.IncDecStmt:
			return t.Tok == token.DEC && c19IsUnsigned(info.TypeOf(t.X))
		}
		return false
	}) {
		sb := &c19Sub{pos: h.Node.Pos(), def: h.Loc, ctx: ctxOf(h.Node)}
		switch t := h.Node.(type) {
		case *ast.AssignStmt:
			sb.isStmt = true
			sb.a, sb.b = c19LinOf(info, t.Lhs[0]), c19LinOf(info, t.Rhs[0])
			sb.text = types.ExprString(stripRecv(t.Lhs[0])) + " -= " + types.ExprString(stripRecv(t.Rhs[0]))
			if isState(t.Lhs[0]) {
				sb.sinks = []c19Sink{{h.Loc, t.Pos(), "the scroll state", "state"}}
			} else {
				sb.note = "decrement of a local"
			}
		case *ast.IncDecStmt:
			sb.isStmt = true
			sb.a, sb.b = c19LinOf(info, t.X), c19NewLin().addK(1)
			sb.text = types.ExprString(stripRecv(t.X)) + "--"
			if isState(t.X) {
				sb.sinks = []c19Sink{{h.Loc, t.Pos(), "the scroll state", "state"}}
			} else {
				sb.note = "decrement of a local"
			}
		case *ast.BinaryExpr:
			sb.a, sb.b = c19LinOf(info, t.X), c19LinOf(info, t.Y)
			sb.text = types.ExprString(stripRecv(t.X)) + " - " + types.ExprString(stripRecv(t.Y))
			var cur ast.Node = t
			p := parents[cur]
			for {
				if pe, ok := p.(*ast.ParenExpr); ok {
					cur, p = pe, parents[pe]
					continue
				}
				break
			}
			switch pt := p.(type) {
			case *ast.IndexExpr:
				if pt.Index == cur {
					sb.sinks = []c19Sink{{h.Loc, pt.Pos(), types.ExprString(stripRecv(pt)), "index"}}
				} else {
					sb.note = "indexed operand"
				}
			case *ast.SliceExpr:
				if pt.X != cur {
					sb.sinks = []c19Sink{{h.Loc, pt.Pos(), types.ExprString(stripRecv(pt)), "index"}}
				}
			case *ast.CallExpr:
				if ty, ok := c19IsConversion(info, pt); ok && c19IsIntType(ty) && !c19IsUnsigned(ty) {
					sb.sinks = []c19Sink{{h.Loc, pt.Pos(), "a conversion to " + ty.String(), "signed"}}
				} else {
					sb.note = "argument of " + types.ExprString(pt.Fun)
				}
			case *ast.AssignStmt:
				for i, r := range pt.Rhs {
					if r != cur || len(pt.Lhs) != len(pt.Rhs) {
						continue
					}
					lhs := pt.Lhs[i]
					if isState(lhs) {
						sb.sinks = []c19Sink{{h.Loc, pt.Pos(), "the scroll state (" + types.ExprString(stripRecv(lhs)) + ")", "state"}}
					} else if id, ok := lhs.(*ast.Ident); ok {
						v := info.ObjectOf(id)
						sb.text = id.Name + " := " + sb.text
						nAssign := 0
						for _, b := range g.Blocks {
							for _, n := range b.Nodes {
								if assignsAny(info, n, map[types.Object]bool{v: true}) {
									nAssign++
								}
							}
						}
						for _, u := range g.Find(func(n ast.Node) bool { uid, ok := n.(*ast.Ident); return ok && info.Uses[uid] == v }) {
							var uc ast.Node = u.Node
							up := parents[uc]
							for {
								if pe, ok := up.(*ast.ParenExpr); ok {
									uc, up = pe, parents[pe]
									continue
								}
								if ce, ok := up.(*ast.CallExpr); ok {
									if ty, ok := c19IsConversion(info, ce); ok && c19IsIntType(ty) {
										if _, isIdx := parents[ce].(*ast.IndexExpr); isIdx {
											uc, up = ce, parents[ce]
											continue
										}
									}
								}
								break
							}
							switch ut := up.(type) {
							case *ast.IndexExpr:
								if ut.Index == uc {
									sb.sinks = append(sb.sinks, c19Sink{u.Loc, ut.Pos(), types.ExprString(stripRecv(ut)), "index"})
								}
							case *ast.SliceExpr:
								if ut.X != uc {
									sb.sinks = append(sb.sinks, c19Sink{u.Loc, ut.Pos(), types.ExprString(stripRecv(ut)), "index"})
								}
							}
						}
						if nAssign != 1 && len(sb.sinks) > 0 {
							sb.note = "the local " + id.Name + " holding an unsigned difference is assigned more than once"
						}
						if len(sb.sinks) == 0 {
							sb.note = "local " + id.Name + " is not used as an index"
						}
					} else {
						sb.note = "stored outside the scroll state"
					}
				}
			case *ast.KeyValueExpr, *ast.CompositeLit:
				sb.note = "field of a literal (a size constraint: vxfw layout contract, property C14)"
			default:
				sb.note = fmt.Sprintf("operand of %T", p)
			}
		}
		out = append(out, sb)
	}
	return out
}

func (sb *c19Sub) terms() []*c19Term {
	var out []*c19Term
	for _, l := range []*c19Lin{sb.a, sb.b} {
		for _, id := range l.ids() {
			out = append(out, l.tm[id])
		}
	}
	return out
}

func c19NodeTouches(fl *c19Flow, n ast.Node, terms []*c19Term) bool {
	for _, ef := range fl.effectsOf(n) {
		if ef.kind == 'x' {
			return true
		}
		if ef.kind == 0 {
			continue
		}
		for _, t := range terms {
			if t.affected(ef.lhs) {
				return true
			}
		}
	}
	return false
}

// c19ChangedBetween: is an operand written on some path from the subtraction to the use?
func c19ChangedBetween(fl *c19Flow, g *FG, sb *c19Sub, use Loc) bool {
	terms := sb.terms()
	changed := false
	g.walk(Loc{sb.def.B, sb.def.Idx + 1}, func(l Loc, n ast.Node) bool {
		if l == use {
			return false
		}
		if c19NodeTouches(fl, n, terms) && g.ReachesAvoiding(l, use, nil) {
			changed = true
		}
		return true
	}, nil)
	return changed
}

// c19AtEntry: the statement is executed on entry, before anything that could change its operands.
func c19AtEntry(fl *c19Flow, g *FG, sb *c19Sub) bool {
	if sb.def.B != g.Blocks[0] {
		return false
	}
	for i := 0; i < sb.def.Idx; i++ {
		if c19NodeTouches(fl, sb.def.B.Nodes[i], sb.terms()) {
			return false
		}
	}
	return true
}

// c19LiftToCallers checks an entry requirement of a method (a - b >= 0 over receiver fields) at each call site.
func c19LiftToCallers(c *Ctx, pk *packages.Package, callee *FuncInfo, calleeRecv types.Object, sb *c19Sub, skey string, bounds c19Bounds) {
	info := pk.TypesInfo
	nCalls := 0
	for _, fi := range c.P.FuncsIn(shortPkg(pk.PkgPath)) {
		g := c19Graph(c, fi)
		if g == nil {
			continue
		}
		// the method must only be called, never taken as a value
		parents := c.P.Parents(pk)
		ast.Inspect(fi.Decl.Body, func(n ast.Node) bool {
			if sel, ok := n.(*ast.SelectorExpr); ok {
				if s, ok := info.Selections[sel]; ok && s.Obj() == types.Object(callee.Obj) {
					call, isCall := parents[sel].(*ast.CallExpr)
					if s.Kind() != types.MethodVal || !isCall || unparen(call.Fun) != ast.Expr(sel) {
						c.undecided("C19.c", skey+" <- "+fi.Name, sel.Pos(), "%s is used as a method value or expression; its callers cannot be enumerated", callee.Name)
					}
				}
			}
			return true
		})
		calls := g.Calls(func(fn *types.Func, call *ast.CallExpr) bool { return fn == callee.Obj })
		if len(calls) == 0 {
			continue
		}
		fl := c19NewFlow(c, g, bounds)
		type cg struct {
			h Hit
			f *c19Form
		}
		var cgs []cg
		for _, h := range calls {
			nCalls++
			call := h.Node.(*ast.CallExpr)
			sel, ok := unparen(call.Fun).(*ast.SelectorExpr)
			var base c19Path
			if ok {
				base, ok = c19Chain(info, sel.X)
			}
			if !ok {
				c.undecided("C19.c", skey+" <- "+fi.Name, call.Pos(), "the receiver of the call is not an access path")
				continue
			}
			rebase := func(l *c19Lin) (*c19Lin, bool) {
				out := c19NewLin()
				out.k = l.k
				for _, id := range l.ids() {
					t := l.tm[id]
					p, ok := c19Chain(info, t.ex)
					if !ok || p.root != calleeRecv {
						return nil, false
					}
					for _, seg := range p.path {
						if seg == "[]" {
							return nil, false
						}
					}
					np := c19Path{base.root, append(append([]string{}, base.path...), p.path...)}
					nt := &c19Term{id: fmt.Sprintf("%p%s", np.root, joinDot(np.path)), ex: t.ex, paths: []c19Path{np}}
					out.coef[nt.id] = l.coef[id]
					out.tm[nt.id] = nt
				}
				return out, true
			}
			a, ok1 := rebase(sb.a)
			b, ok2 := rebase(sb.b)
			if !ok1 || !ok2 {
				c.undecided("C19.c", skey+" <- "+fi.Name, call.Pos(), "the operands of %s are not fields of the receiver", sb.text)
				continue
			}
			cgs = append(cgs, cg{h, fl.goalAt(fl.ge0(a.plus(b, -1)), h.Loc)})
		}
		fl.solve()
		for _, x := range cgs {
			fl.prove("C19.c", skey+" <- "+fi.Name, x.h.Node.Pos(), x.h.Loc, x.f, "the entry requirement of "+callee.Name+" ("+sb.text+" does not wrap)",
				callee.Name+" decrements on entry; a call with the operand at 0 wraps scroll.top to 2^64-1 and the list draws nothing afterwards")
		}
	}
	if nCalls == 0 {
		c.okTrivial("C19.c", skey, sb.pos, "%s has no callers", callee.Name)
	}
}

// ---------------------------------------------------------------------------------------------
// C19.d — divisors
// ---------------------------------------------------------------------------------------------

func c19Divisors(c *Ctx) {
	for _, pkgName := range []string{"vxfw/list", "widgets/list", "widgets/pager", "widgets/scrollbar"} {
		pk := c.P.Pkg(pkgName)
		if pk == nil {
			c.undecided("C19.d", pkgName, 0, "package not found")
			continue
		}
		info := pk.TypesInfo
		bounds := c19WithLen(c19TypeBounds(c, pk))
		for _, fi := range c.P.FuncsIn(pkgName) {
			g := c19Graph(c, fi)
			if g == nil {
				continue
			}
			type div struct {
				h Hit
				d ast.Expr
				f *c19Form
			}
			var divs []div
			fl := c19NewFlow(c, g, bounds)
			for _, h := range g.Find(func(n ast.Node) bool {
				switch t := n.(type) {
				case *ast.BinaryExpr:
					return (t.Op == token.QUO || t.Op == token.REM) && c19IsIntType(info.TypeOf(t))
				case *ast.AssignStmt:
					return (t.Tok == token.QUO_ASSIGN || t.Tok == token.REM_ASSIGN) && len(t.Lhs) == 1 && c19IsIntType(info.TypeOf(t.Lhs[0]))
				}
				return false
			}) {
				var d ast.Expr
				switch t := h.Node.(type) {
				case *ast.BinaryExpr:
					d = t.Y
				case *ast.AssignStmt:
					d = t.Rhs[0]
				}
				if v, ok := constInt(info, d); ok {
					if _, whole := constInt(info, h.Node.(ast.Expr)); !whole {
						c.check(v != 0, "C19.d", fi.Name+"/divisor "+types.ExprString(stripRecv(d)), d.Pos(), "constant non-zero divisor", "division by the constant 0")
					}
					continue
				}
				l := c19LinOf(info, d)
				divs = append(divs, div{h, d, fl.goalAt(c19Or(fl.ge0(l.addK(-1)), fl.le(l.addK(1))), h.Loc)})
			}
			if len(divs) == 0 {
				continue
			}
			fl.solve()
			for _, dv := range divs {
				fl.prove("C19.d", fi.Name+"/divisor "+types.ExprString(stripRecv(dv.d)), dv.d.Pos(), dv.h.Loc, dv.f, "divisor != 0", "integer division by zero panics")
			}
		}
	}
}
