package main

// C19 — lists and pagers.
//
// Decided clauses (one obligation per construct; constructs are found in the supergraph of every root
// function, i.e. with small unexported same-package helpers inlined, so that extracting or inlining a
// helper does not change what is checked):
//   a  widgets/list: every store to List.index / List.offset keeps it >= 0; every store to index keeps it
//      <= max(0, len(items)-1); a store to items is paired with such a store; every access items[lo:] /
//      items[i] stays within the slice
//   e  widgets/list: where the items are accessed for drawing offset <= index < offset+height; an item is
//      drawn on row (its index - offset); the highlighted item is the one whose index equals List.index
//   b  widgets/pager: the layout function is a typestate machine over its pending line (fresh / dirty /
//      stored): nothing dirty at return, never overwritten, stored once, no append after storing; lines is
//      emptied once before the first store; the column counter advances per cell and restarts after each
//      store; a line is closed when col >= width; the draw function reaches the lines with 0 <= Offset,
//      Offset clamped to the content, laid out for the recorded window width; line J is drawn on row J-Offset
//      (c19_pager.go: the typestate is kept per line object, with the variables - caller's variable, parameter
//      and result of a helper that takes and returns the pending line - that refer to it)
//   m  widgets/pager: the column counter is not set to a constant between two appends to the same unstored
//      line (it measures the pending line across segments and helper calls)            (c19_pager.go)
//   n  widgets/pager: every newline cluster ends a line; only the one newline directly after a wrap may be
//      absorbed (ghost bits over the predicate abstraction, newline branches recognised as edges)   (c19n.go)
//      Lines may be collected in a local slice that is stored in Model.lines at the end (a "builder": every
//      line end into it is followed by the store on every path to return); a local state struct with methods
//      is dissolved into plain locals before the rules run (c19sra.go).
//   c  vxfw/list: unsigned subtractions that reach an index or the scroll state are ordered by the facts in
//      force; index expressions stay within [0,len); a selection change re-anchors the scroll state
//      (wantsCursor raised under cursor >= top, or top = cursor with offset = 0) before the function
//      returns; pending is reset after it is read; the wantsCursor site is a listed exception whose side
//      conditions are obligations
//   d  every integer division of the anchored files has a divisor the facts in force make non-zero
//   i,j,l  vxfw/list: layout-accumulator typestate, element edits arrive in the slice, origins stay signed (c19y.go)
//   o  vxfw/list: the children are in list order at every normal return of a layout function and where a loop
//      re-rows them in slice order: upward children are committed at the front, or the bottom-up block that
//      appending builds is reversed as a whole on every path (c19o.go; the reversal recogniser also discharges
//      the index obligations of rule c inside a reversal loop)
//
// The predicate abstraction (c19_flow.go) tracks at most 15 predicates per obligation; when more are relevant the
// set is sliced by distance from the goal (goal terms, then guard terms, then definitions followed) instead of
// giving up - any subset of the predicates is a sound abstraction.

import (
	"fmt"
	"go/ast"
	"go/token"
	"go/types"
	"math"
	"os"
	"strings"

	"golang.org/x/tools/go/packages"
)

func init() { register("C19", false, runC19) }

// ---------------------------------------------------------------------------------------------
// packages, roots and covered helpers
// ---------------------------------------------------------------------------------------------

type c19Pkg struct {
	c       *Ctx
	name    string
	pk      *packages.Package
	info    *types.Info
	funcs   []*FuncInfo
	covered map[*FuncInfo]bool
	parents map[ast.Node]ast.Node
}

// c19LoadPkg finds the helpers that are covered by their callers: unexported, small, and used only in
// statement-level calls that every analysed caller really inlines. Everything else is a root.
func c19LoadPkg(c *Ctx, name string) *c19Pkg {
	pk := c.P.Pkg(name)
	if pk == nil {
		return nil
	}
	p := &c19Pkg{c: c, name: name, pk: pk, info: pk.TypesInfo, covered: map[*FuncInfo]bool{}, parents: c.P.Parents(pk)}
	dead := c19DeadFuncs(c, pk, c.P.FuncsIn(name))
	for _, fi := range c.P.FuncsIn(name) {
		if fi.Decl.Body != nil && !dead[fi] {
			p.funcs = append(p.funcs, fi)
		}
	}
	byObj := map[types.Object]*FuncInfo{}
	for _, fi := range p.funcs {
		byObj[fi.Obj] = fi
	}
	sites := map[*FuncInfo][]*ast.CallExpr{}
	bad := map[*FuncInfo]bool{}
	for _, f := range pk.Syntax {
		ast.Inspect(f, func(n ast.Node) bool {
			id, ok := n.(*ast.Ident)
			if !ok {
				return true
			}
			fi := byObj[p.info.Uses[id]]
			if fi == nil {
				return true
			}
			var node ast.Node = id
			if sel, ok := p.parents[id].(*ast.SelectorExpr); ok && sel.Sel == id {
				node = sel
			}
			par := p.parents[node]
			for {
				if pe, ok := par.(*ast.ParenExpr); ok {
					node, par = pe, p.parents[pe]
					continue
				}
				break
			}
			call, ok := par.(*ast.CallExpr)
			if !ok || unparen(call.Fun) != node.(ast.Expr) {
				bad[fi] = true
				return true
			}
			var stmt ast.Node = p.parents[call]
			for {
				if pe, ok := stmt.(*ast.ParenExpr); ok {
					stmt = p.parents[pe]
					continue
				}
				break
			}
			if sc, _ := c19InlineSite(stmt); sc != call {
				bad[fi] = true
				return true
			}
			sites[fi] = append(sites[fi], call)
			return true
		})
	}
	for _, fi := range p.funcs {
		if !ast.IsExported(fi.Decl.Name.Name) && !bad[fi] && len(sites[fi]) > 0 && c19InlinableBody(c, fi) && fi.Decl.Name.Name != "init" && fi.Decl.Name.Name != "main" {
			p.covered[fi] = true
		}
	}
	// a helper is covered only if every one of its call sites is really inlined in some root's supergraph
	for changed := true; changed; {
		changed = false
		inlined := map[*ast.CallExpr]bool{}
		for _, fi := range p.roots() {
			fl := c19NewFlow(c, fi, nil, p.allow)
			for call := range fl.inlined {
				inlined[call] = true
			}
		}
		for _, fi := range p.funcs {
			if !p.covered[fi] {
				continue
			}
			for _, call := range sites[fi] {
				if !inlined[call] {
					delete(p.covered, fi)
					changed = true
					break
				}
			}
		}
	}
	return p
}

func (p *c19Pkg) allow(fi *FuncInfo) bool { return p.covered[fi] }

func (p *c19Pkg) roots() []*FuncInfo {
	var out []*FuncInfo
	for _, fi := range p.funcs {
		if !p.covered[fi] {
			out = append(out, fi)
		}
	}
	return out
}

// ---------------------------------------------------------------------------------------------
// shared recognisers
// ---------------------------------------------------------------------------------------------

func c19StructOf(pk *packages.Package, name string) (*types.TypeName, *types.Struct) {
	tn, _ := pk.Types.Scope().Lookup(name).(*types.TypeName)
	if tn == nil {
		return nil, nil
	}
	st, _ := tn.Type().Underlying().(*types.Struct)
	return tn, st
}

func c19FieldNamed(st *types.Struct, name string) *types.Var {
	for i := 0; st != nil && i < st.NumFields(); i++ {
		if st.Field(i).Name() == name {
			return st.Field(i)
		}
	}
	return nil
}

// c19SelField: the field variable selected by e (x.f), or nil.
func c19SelField(info *types.Info, e ast.Expr) *types.Var {
	if e == nil {
		return nil
	}
	sel, ok := unparen(e).(*ast.SelectorExpr)
	if !ok {
		return nil
	}
	if s, ok := info.Selections[sel]; ok && s.Kind() == types.FieldVal {
		fv, _ := s.Obj().(*types.Var)
		return fv
	}
	return nil
}

type c19Store struct {
	c19Pos
	sn   *c19SNode
	stmt ast.Stmt
	lhs  ast.Expr
	rhs  ast.Expr // nil when unknown (multi-value assignment)
	tok  token.Token
	fv   *types.Var
}

// stores finds the assignments (in every frame) whose target is one of the given fields.
func (fl *c19Flow) stores(fields ...*types.Var) []c19Store {
	info := fl.info
	want := func(e ast.Expr) *types.Var {
		fv := c19SelField(info, e)
		for _, f := range fields {
			if f != nil && fv == f {
				return fv
			}
		}
		return nil
	}
	var out []c19Store
	for _, h := range fl.find(func(n ast.Node) bool {
		switch n.(type) {
		case *ast.AssignStmt, *ast.IncDecStmt:
			return true
		}
		return false
	}) {
		switch s := h.node.(type) {
		case *ast.AssignStmt:
			for j, l := range s.Lhs {
				if fv := want(l); fv != nil {
					st := c19Store{c19Pos: h.c19Pos, sn: h.sn, stmt: s, lhs: l, tok: s.Tok, fv: fv}
					if len(s.Lhs) == len(s.Rhs) {
						st.rhs = s.Rhs[j]
					}
					out = append(out, st)
				}
			}
		case *ast.IncDecStmt:
			if fv := want(s.X); fv != nil {
				out = append(out, c19Store{c19Pos: h.c19Pos, sn: h.sn, stmt: s, lhs: s.X, tok: s.Tok, fv: fv})
			}
		}
	}
	return out
}

// value of a store as a linear form in its frame (nil when not linear).
func (s c19Store) lin(info *types.Info) *c19Lin {
	var l *c19Lin
	c19With(s.sn.fr, func() {
		switch s.tok {
		case token.INC:
			l = c19LinOf(info, s.lhs).addK(1)
			return
		case token.DEC:
			l = c19LinOf(info, s.lhs).addK(-1)
			return
		}
		if s.rhs == nil || !c19IsIntType(info.TypeOf(s.rhs)) {
			return
		}
		switch s.tok {
		case token.ASSIGN, token.DEFINE:
			l = c19LinOf(info, s.rhs)
		case token.ADD_ASSIGN:
			l = c19LinOf(info, s.lhs).plus(c19LinOf(info, s.rhs), 1)
		case token.SUB_ASSIGN:
			l = c19LinOf(info, s.lhs).plus(c19LinOf(info, s.rhs), -1)
		}
	})
	return l
}

func (s c19Store) av(ev *c19Eval) c19AV {
	a := ev.eval(s.lhs)
	switch s.tok {
	case token.INC:
		return c19AV{a.lo + 1, a.hi + 1, a.rel + 1}
	case token.DEC:
		return c19AV{a.lo - 1, a.hi - 1, a.rel - 1}
	}
	if s.rhs == nil {
		return c19Top()
	}
	b := ev.eval(s.rhs)
	switch s.tok {
	case token.ASSIGN, token.DEFINE:
		return b
	case token.ADD_ASSIGN:
		return c19AV{a.lo + b.lo, a.hi + b.hi, math.Min(a.rel+b.hi, b.rel+a.hi)}.norm()
	case token.SUB_ASSIGN:
		return c19AV{a.lo - b.hi, a.hi - b.lo, a.rel - b.lo}.norm()
	}
	return c19Top()
}

// isZeroStore: the node is `<field> = 0`.
func c19IsZeroStore(info *types.Info, fv *types.Var) func(ast.Node) bool {
	return func(n ast.Node) bool {
		as, ok := n.(*ast.AssignStmt)
		if !ok || len(as.Lhs) != 1 || len(as.Rhs) != 1 || as.Tok != token.ASSIGN || c19SelField(info, as.Lhs[0]) != fv {
			return false
		}
		v, ok := constInt(info, as.Rhs[0])
		return ok && v == 0
	}
}

type c19SizeVar struct {
	id *ast.Ident
	fr *c19Frame
}

// sizeVars: the variables bound to the results of a call of vaxis.Window.Size anywhere in the supergraph.
func (fl *c19Flow) sizeVars() (w, h *c19SizeVar) {
	for _, hit := range fl.find(func(n ast.Node) bool { _, ok := n.(*ast.AssignStmt); return ok }) {
		as := hit.node.(*ast.AssignStmt)
		if len(as.Rhs) != 1 || len(as.Lhs) != 2 {
			continue
		}
		call, ok := unparen(as.Rhs[0]).(*ast.CallExpr)
		if !ok {
			continue
		}
		if fn := calleeOf(fl.info, call); fn == nil || repoName(fn) != "vaxis.Window.Size" {
			continue
		}
		if id, ok := as.Lhs[0].(*ast.Ident); ok && id.Name != "_" {
			w = &c19SizeVar{id, hit.sn.fr}
		}
		if id, ok := as.Lhs[1].(*ast.Ident); ok && id.Name != "_" {
			h = &c19SizeVar{id, hit.sn.fr}
		}
	}
	return
}

func (v *c19SizeVar) lin(info *types.Info) *c19Lin {
	var l *c19Lin
	c19With(v.fr, func() { l = c19LinOf(info, v.id) })
	return l
}

func c19RecvObj(fi *FuncInfo) types.Object {
	if fi.Decl.Recv == nil || len(fi.Decl.Recv.List) != 1 || len(fi.Decl.Recv.List[0].Names) != 1 {
		return nil
	}
	return fi.Pkg.TypesInfo.Defs[fi.Decl.Recv.List[0].Names[0]]
}

// c19WithLen wraps bounds so that len terms and fabricated non-negative terms are >= 0.
func c19WithLen(b c19Bounds) c19Bounds {
	return func(t *c19Term) (float64, float64) {
		if t != nil && (t.isLen || t.nonneg) {
			return 0, math.Inf(1)
		}
		return b(t)
	}
}

func c19Short(e ast.Node) string {
	switch t := e.(type) {
	case ast.Expr:
		return types.ExprString(t)
	case *ast.AssignStmt:
		var l, r []string
		for _, x := range t.Lhs {
			l = append(l, types.ExprString(x))
		}
		for _, x := range t.Rhs {
			r = append(r, types.ExprString(x))
		}
		return strings.Join(l, ", ") + " " + t.Tok.String() + " " + strings.Join(r, ", ")
	case *ast.IncDecStmt:
		return types.ExprString(t.X) + t.Tok.String()
	case *ast.ExprStmt:
		return types.ExprString(t.X)
	}
	return fmt.Sprintf("%T", e)
}

// c19ParamArg: the argument bound to the callee parameter called name.
func c19ParamArg(fn *types.Func, call *ast.CallExpr, name string) ast.Expr {
	sig, ok := fn.Type().(*types.Signature)
	if !ok {
		return nil
	}
	for i := 0; i < sig.Params().Len() && i < len(call.Args); i++ {
		if sig.Params().At(i).Name() == name && !(sig.Variadic() && i == sig.Params().Len()-1) {
			return call.Args[i]
		}
	}
	return nil
}

// frames lists the frames of the supergraph.
func (fl *c19Flow) frames() []*c19Frame {
	seen := map[*c19Frame]bool{}
	var out []*c19Frame
	for _, b := range fl.blks {
		if !seen[b.fr] {
			seen[b.fr] = true
			out = append(out, b.fr)
		}
	}
	return out
}

// c19Origin: e is (part of) element J of the slice field fv; returns J as a linear form in the frame's
// vocabulary (range values, single-definition locals and parameters are followed).
func c19Origin(c *Ctx, fr *c19Frame, e ast.Expr, fv *types.Var, depth int) *c19Lin {
	if e == nil || depth > 6 {
		return nil
	}
	info := fr.fi.Pkg.TypesInfo
	var out *c19Lin
	c19With(fr, func() {
		switch t := unparen(e).(type) {
		case *ast.IndexExpr:
			if c19SelField(info, t.X) == fv {
				out = c19LinOf(info, t.Index)
			} else if low := c19SliceLow(c, fr, t.X, fv, depth+1); low != nil {
				// element i of fv[low:] (possibly through a local name for the sub-slice) is element low+i of fv
				out = c19LinOf(info, t.Index).plus(low, 1)
			} else {
				out = c19Origin(c, fr, t.X, fv, depth+1)
			}
		case *ast.SelectorExpr:
			if _, ok := info.Selections[t]; ok {
				out = c19Origin(c, fr, t.X, fv, depth+1)
			}
		case *ast.StarExpr:
			out = c19Origin(c, fr, t.X, fv, depth+1)
		case *ast.UnaryExpr:
			if t.Op == token.AND {
				out = c19Origin(c, fr, t.X, fv, depth+1)
			}
		case *ast.CompositeLit:
			for _, el := range t.Elts {
				if kv, ok := el.(*ast.KeyValueExpr); ok {
					el = kv.Value
				}
				if o := c19Origin(c, fr, el, fv, depth+1); o != nil {
					out = o
					return
				}
			}
		case *ast.CallExpr:
			if _, ok := c19IsConversion(info, t); ok {
				out = c19Origin(c, fr, t.Args[0], fv, depth+1)
			}
		case *ast.Ident:
			o, ok := info.ObjectOf(t).(*types.Var)
			if !ok {
				return
			}
			out = c19OriginObj(c, fr, o, fv, depth+1)
		}
	})
	return out
}

func c19OriginObj(c *Ctx, fr *c19Frame, o *types.Var, fv *types.Var, depth int) *c19Lin {
	info := fr.fi.Pkg.TypesInfo
	if depth > 6 {
		return nil
	}
	// a parameter of an inlined helper: follow the argument in the caller
	if fr.parent != nil {
		if a, ok := fr.alias[o]; ok && len(a.path) == 0 {
			if v, ok := a.root.(*types.Var); ok {
				return c19OriginObj(c, fr.parent, v, fv, depth+1)
			}
		}
		if arg, ok := fr.args[o]; ok {
			return c19Origin(c, fr.parent, arg, fv, depth+1)
		}
	}
	// the value variable of a range statement
	var rs *ast.RangeStmt
	ast.Inspect(fr.fi.Decl.Body, func(n ast.Node) bool {
		if r, ok := n.(*ast.RangeStmt); ok && r.Value != nil {
			if id, ok := r.Value.(*ast.Ident); ok && info.ObjectOf(id) == types.Object(o) {
				rs = r
			}
		}
		return rs == nil
	})
	if rs != nil {
		var key *c19Lin
		if kid, ok := rs.Key.(*ast.Ident); ok && kid.Name != "_" {
			c19With(fr, func() { key = c19LinOf(info, kid) })
		}
		x := unparen(rs.X)
		if c19SelField(info, x) == fv {
			return key
		}
		if low := c19SliceLow(c, fr, x, fv, depth+1); low != nil {
			if key == nil {
				return nil
			}
			return key.plus(low, 1)
		}
		return c19Origin(c, fr, x, fv, depth+1)
	}
	if def, _ := c19LocalDef(fr.fi, o); def != nil {
		return c19Origin(c, fr, def, fv, depth+1)
	}
	return nil
}

// c19RowCall: a call of a vaxis.Window drawing method with a parameter called row.
type c19RowCall struct {
	hit  c19Hit
	call *ast.CallExpr
	fn   *types.Func
	row  *c19Lin // resolved in its frame
	item *c19Lin // index of the element of the tracked slice that is drawn (nil: unknown)
}

func (fl *c19Flow) rowCalls(fv *types.Var) []c19RowCall {
	var out []c19RowCall
	for _, h := range fl.find(func(n ast.Node) bool { _, ok := n.(*ast.CallExpr); return ok }) {
		call := h.node.(*ast.CallExpr)
		fn := calleeOf(fl.info, call)
		if fn == nil || !strings.HasPrefix(repoName(fn), "vaxis.Window.") {
			continue
		}
		rowArg := c19ParamArg(fn, call, "row")
		if rowArg == nil {
			continue
		}
		rc := c19RowCall{hit: h, call: call, fn: fn}
		use := h.sn.loc
		c19With(h.sn.fr, func() { rc.row = c19Resolve(fl.c, h.sn.fr.fi, c19LinOf(fl.info, rowArg), &use) })
		rc.row = c19LiftLin(fl.c, h.sn.fr, rc.row)
		for _, a := range call.Args {
			if a == rowArg || rc.item != nil {
				continue
			}
			ast.Inspect(a, func(n ast.Node) bool {
				if rc.item != nil {
					return false
				}
				switch t := n.(type) {
				case *ast.Ident, *ast.IndexExpr:
					if o := c19Origin(fl.c, h.sn.fr, t.(ast.Expr), fv, 0); o != nil {
						c19With(h.sn.fr, func() { rc.item = c19Resolve(fl.c, h.sn.fr.fi, o, &use) })
						rc.item = c19LiftLin(fl.c, h.sn.fr, rc.item)
						return false
					}
				}
				return true
			})
		}
		out = append(out, rc)
	}
	return out
}

// c19LiftLin replaces the value parameters of inlined helpers by the arguments they were called with
// (parameters are required not to be reassigned; the argument is read in the caller's vocabulary).
func c19LiftLin(c *Ctx, fr *c19Frame, l *c19Lin) *c19Lin {
	for ; fr != nil && fr.parent != nil; fr = fr.parent {
		info := fr.fi.Pkg.TypesInfo
		for _, id := range l.ids() {
			t := l.tm[id]
			if len(t.paths) != 1 || len(t.paths[0].path) != 0 {
				continue
			}
			arg, ok := fr.args[t.paths[0].root]
			if !ok || !isIntegerExpr(info, arg) {
				continue
			}
			if v, isVar := t.paths[0].root.(*types.Var); isVar {
				if def, _ := c19LocalDef(fr.fi, v); def != nil {
					continue
				}
				assigned := false
				ast.Inspect(fr.fi.Decl.Body, func(n ast.Node) bool {
					if n != nil && assignsAny(info, n, map[types.Object]bool{v: true}) {
						if _, blk := n.(*ast.BlockStmt); !blk {
							assigned = true
						}
					}
					return !assigned
				})
				if assigned {
					continue
				}
			}
			var al *c19Lin
			c19With(fr.parent, func() { al = c19Resolve(c, fr.parent.fi, c19LinOf(info, arg), nil) })
			k := l.coef[id]
			nl := l.clone()
			delete(nl.coef, id)
			delete(nl.tm, id)
			l = nl.plus(al, k)
		}
	}
	return l
}

func c19IsZeroLin(l *c19Lin) bool { return len(l.ids()) == 0 && l.k == 0 }

// ---------------------------------------------------------------------------------------------
// the check
// ---------------------------------------------------------------------------------------------

func runC19(c *Ctx) {
	c19ModMemo = map[*types.Func][][]string{}
	c19ModAll = map[*types.Func]bool{}
	c19Graphs = map[*FuncInfo]*FG{}
	c19C = c
	c19Ctx, c19Bind = nil, nil
	// local closures that only name a block of statements are spliced into their call sites (c19norm.go)
	if os.Getenv("VX_NO_NORMALISE") == "" {
		c19NormaliseBundles(c) // local state structs with methods are dissolved into plain locals (c19sra.go)
		c19NormaliseClosures(c)
	}
	debugDumpFuncs(c) // VX_DUMP_FN=... prints functions as the rules see them
	c.Clauses = []string{
		"C19.a widgets/list: every store to List.index/offset keeps it >= 0 and every store to index keeps it <= max(0,len(items)-1) (intervals, helper summaries, one guard used once); a store to items is paired with a clamping store to index; every access to items stays within the slice",
		"C19.e widgets/list: where items are accessed for drawing offset <= index < offset+height; item J is drawn on row J-offset; the highlighted item is the one at List.index",
		"C19.b widgets/pager: the layout's pending line is flushed on every path to return, never overwritten, stored twice or appended to after being stored; lines are reset once before the first flush; the column counter advances with every cell and restarts after each flush; a line is closed when col >= width; the draw function reaches the lines with 0 <= Offset, Offset clamped to the content and the lines laid out for the recorded window width; line J is drawn on row J-Offset",
		"C19.c vxfw/list: unsigned subtractions reaching an index or the scroll state are ordered by the facts in force (helpers are analysed in the context of their callers; the wantsCursor site is an exception whose side conditions are checked); index expressions stay within [0,len); a selection change re-anchors the scroll state before the function returns (wantsCursor raised under cursor >= top, or top = cursor with offset = 0); pending is reset after it is read",
		"C19.d every integer division of the anchored files has a divisor that the facts in force make non-zero",
	}
	c.NotDec = []string{
		"visibility of the selected item after a draw of the dynamic list (depends on measured item heights)",
		"contiguity and non-overlap of the laid-out items of the dynamic list",
		"loss-free wrapping of wide characters at the window edge in the pager",
	}
	c.Assume = append(c.Assume,
		"Builder callbacks and child Draw methods do not mutate the list that calls them",
		"integer values stay below 2^63 (integer conversions are order preserving); the only wrap-around considered is the unsigned subtraction that rule C19.c excludes")
	// minima are on what must exist semantically (kinds of constructs), not on how the code is cut up
	c.expect("C19.a", 4)
	c.expect("C19.e", 1)
	c.expect("C19.b", 10)
	c.expect("C19.c", 8)
	c.expect("C19.d", 1)

	c19WidgetsList(c)
	c19Pager(c)
	c19VxfwList(c)
	c19Divisors(c)
	if os.Getenv("C19_DEBUG") != "" {
		for _, o := range c.Obs {
			fmt.Printf("DEBUG %-10s %s [%s] %s\n", o.Status, o.Key, o.Pos, o.Reason)
		}
	}
	c19C = nil
}

// c19DeadFuncs: unexported functions and methods of the package that nothing live refers to any more. The
// global helper inliner (gnorm.go) copies the body of a freshly extracted helper into its callers but leaves
// the declaration in place; such a declaration is code that never runs, so it is neither a root of its own nor
// a source of stores for the package-wide arguments. Liveness starts from everything exported, init/main,
// references from package-level initialisers, and unexported methods whose name some interface of the package
// declares (they can be called through the interface); it follows every reference (call, method value,
// function value) from live code.
func c19DeadFuncs(c *Ctx, pk *packages.Package, funcs []*FuncInfo) map[*FuncInfo]bool {
	info := pk.TypesInfo
	byObj := map[types.Object]*FuncInfo{}
	for _, fi := range funcs {
		byObj[fi.Obj] = fi
	}
	ifaceMethods := map[string]bool{}
	for _, f := range pk.Syntax {
		ast.Inspect(f, func(n ast.Node) bool {
			if it, ok := n.(*ast.InterfaceType); ok && it.Methods != nil {
				for _, m := range it.Methods.List {
					for _, nm := range m.Names {
						ifaceMethods[nm.Name] = true
					}
				}
			}
			return true
		})
	}
	refs := map[*FuncInfo][]*FuncInfo{}
	live := map[*FuncInfo]bool{}
	var work []*FuncInfo
	mark := func(fi *FuncInfo) {
		if fi != nil && !live[fi] {
			live[fi] = true
			work = append(work, fi)
		}
	}
	for _, f := range pk.Syntax {
		for _, d := range f.Decls {
			var owner *FuncInfo
			if fd, ok := d.(*ast.FuncDecl); ok {
				// (a declaration that is not in the list: whatever it refers to stays live)
				owner = byObj[info.Defs[fd.Name]]
			}
			ast.Inspect(d, func(n ast.Node) bool {
				id, ok := n.(*ast.Ident)
				if !ok {
					return true
				}
				callee := byObj[info.Uses[id]]
				if callee == nil {
					return true
				}
				if owner == nil {
					mark(callee)
				} else if owner != callee {
					refs[owner] = append(refs[owner], callee)
				}
				return true
			})
		}
	}
	for _, fi := range funcs {
		name := fi.Decl.Name.Name
		if ast.IsExported(name) || name == "init" || name == "main" || name == "_" || (fi.Decl.Recv != nil && ifaceMethods[name]) {
			mark(fi)
		}
	}
	for len(work) > 0 {
		fi := work[len(work)-1]
		work = work[:len(work)-1]
		for _, r := range refs[fi] {
			mark(r)
		}
	}
	dead := map[*FuncInfo]bool{}
	for _, fi := range funcs {
		if !live[fi] {
			dead[fi] = true
		}
	}
	return dead
}

// c19SliceLow: e denotes the sub-slice fv[low:...] of the slice field fv — written in place, as a slice of such
// a sub-slice, or through a local that is defined once as such an expression and whose operands are not
// written afterwards (so that `low` read at the use is the value the slice was cut at). Returns low as a linear
// form in the frame's vocabulary (zero for the field itself), nil when e is nothing of the kind.
func c19SliceLow(c *Ctx, fr *c19Frame, e ast.Expr, fv *types.Var, depth int) *c19Lin {
	if e == nil || depth > 6 {
		return nil
	}
	info := fr.fi.Pkg.TypesInfo
	var out *c19Lin
	c19With(fr, func() {
		switch t := unparen(e).(type) {
		case *ast.SelectorExpr:
			if c19SelField(info, t) == fv {
				out = c19NewLin()
			}
		case *ast.SliceExpr:
			base := c19SliceLow(c, fr, t.X, fv, depth+1)
			if base == nil {
				return
			}
			if t.Low != nil {
				if !isIntegerExpr(info, t.Low) {
					return
				}
				base = base.plus(c19LinOf(info, t.Low), 1)
			}
			out = base
		case *ast.Ident:
			v, ok := info.ObjectOf(t).(*types.Var)
			if !ok {
				return
			}
			if _, isSlice := v.Type().Underlying().(*types.Slice); !isSlice {
				return
			}
			if def, stmt := c19LocalDef(fr.fi, v); def != nil && c19DefValidAt(c, fr.fi, stmt, def, nil) {
				out = c19SliceLow(c, fr, def, fv, depth+1)
			}
		}
	})
	return out
}
