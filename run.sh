#!/bin/bash
# run.sh <quick|thorough> <Cxx>      run the check of one property against /repo's working tree
# run.sh replay <path>                re-evaluate one reported obligation
# run.sh build                        (re)build the checker from /verif/checker
# Static analysis only: nothing of /repo is compiled to a binary or executed.
set -u
HERE="$(cd "$(dirname "$0")" && pwd)"
cd "$HERE"
export GOFLAGS=-mod=mod GOPROXY=off GOSUMDB=off GOTOOLCHAIN=local GOWORK=off
REPO="${VERIF_REPO:-/repo}"
BIN="$HERE/bin/vxcheck"

build() {
  mkdir -p "$HERE/bin" "$HERE/evidence/replays"
  (
    flock 9
    stale=0
    [ -x "$BIN" ] || stale=1
    if [ $stale -eq 0 ]; then
      for f in "$HERE"/checker/*.go "$HERE"/checker/go.mod; do
        [ "$f" -nt "$BIN" ] && stale=1 && break
      done
    fi
    if [ $stale -eq 1 ]; then
      (cd "$HERE/checker" && go build -o "$BIN.tmp" . && mv "$BIN.tmp" "$BIN") || exit 3
    fi
  ) 9>"$HERE/bin/.lock" || { echo "checker build failed"; exit 3; }
}

mode="${1:-}"; arg="${2:-}"
case "$mode" in
  build) build ;;
  quick)
    build
    exec "$BIN" -p "$arg" -tier quick -repo "$REPO" -verif "$HERE" ;;
  thorough)
    build
    rc=0
    # 1. positive controls: every registered micro-mutation of this property must be reported
    ST="$(mktemp)"
    python3 "$HERE/selftest.py" "$arg" >"$ST" 2>&1; src=$?
    grep -E "MISSED|broken|summary" "$ST"
    # 2. other build configurations (files behind GOOS build tags)
    for os in darwin windows; do
      "$BIN" -p "$arg" -tier thorough -goos "$os" -repo "$REPO" -verif "$HERE" -no-evidence | grep -E "^(VIOLATION|VIOLATED|UNDECIDED|SUMMARY)" | sed "s/^SUMMARY/SUMMARY goos=$os/"
      [ "${PIPESTATUS[0]}" -ne 0 ] && rc=1
    done
    # 2b. both-ways controls in scratch copies (informational: alarms here are defects of the checker, not
    #     violations of the property; they do not change the exit status)
    if [ "${VERIF_THOROUGH_CONTROLS:-1}" = "1" ]; then
      python3 "$HERE/robust_eval.py" "$arg" neg seeds 2>/dev/null | grep -E "^(NEG-ALARM|SEED-MISSED|negatives run)" | sed "s/^/CONTROLS /"
    fi
    # 3. the check itself on the host configuration; writes the evidence file
    VERIF_SELFTEST_LOG="$ST" "$BIN" -p "$arg" -tier thorough -repo "$REPO" -verif "$HERE" || rc=1
    rm -f "$ST"
    if [ $src -ne 0 ] && [ $rc -eq 0 ]; then echo "SELFTEST-FAILED: a positive control of $arg was not reported (checker defect, not a property violation)"; exit 3; fi
    exit $rc ;;
  replay)
    build
    exec "$BIN" -replay "$arg" -repo "$REPO" -verif "$HERE" ;;
  *) echo "usage: run.sh quick|thorough <Cxx> | replay <path> | build"; exit 2 ;;
esac
