#!/bin/bash
# run.sh <quick|thorough> <Cxx>      run the check of one property against /repo's working tree
# run.sh replay <path>                re-evaluate one reported obligation
# run.sh build                        (re)build the checker from /verif/checker
# Static analysis only: nothing of /repo is compiled to a binary or executed.
set -u
HERE="$(cd "$(dirname "$0")" && pwd)"
cd "$HERE"
export GOFLAGS=-mod=mod GOPROXY=off GOSUMDB=off GOTOOLCHAIN=local GOWORK=off
REPO="${VERIF_REPO:-/repo}"
BIN="$HERE/bin/vxcheck"

build() {
  mkdir -p "$HERE/bin" "$HERE/evidence/replays"
  (
    flock 9
    stale=0
    [ -x "$BIN" ] || stale=1
    if [ $stale -eq 0 ]; then
      for f in "$HERE"/checker/*.go "$HERE"/checker/go.mod; do
        [ "$f" -nt "$BIN" ] && stale=1 && break
      done
    fi
    if [ $stale -eq 1 ]; then
      (cd "$HERE/checker" && go build -o "$BIN.tmp" . && mv "$BIN.tmp" "$BIN") || exit 3
    fi
  ) 9>"$HERE/bin/.lock" || { echo "checker build failed"; exit 3; }
}

mode="${1:-}"; arg="${2:-}"
case "$mode" in
  build) build ;;
  quick)
    build
    exec "$BIN" -p "$arg" -tier quick -repo "$REPO" -verif "$HERE" ;;
  thorough)
    build
    exec "$BIN" -p "$arg" -tier thorough -repo "$REPO" -verif "$HERE" ;;
  replay)
    build
    exec "$BIN" -replay "$arg" -repo "$REPO" -verif "$HERE" ;;
  *) echo "usage: run.sh quick|thorough <Cxx> | replay <path> | build"; exit 2 ;;
esac
