#!/usr/bin/env python3
"""Re-run the checks against every kept seeded regression (/verif/seeded/*/patch.diff).
For each: git -C /repo apply, run the quick check of the seeded property (and of the properties that
reported it before), git checkout. Updates meta.json (checks_run, caught_by). Exit 1 if a seed that
was reported before is no longer reported."""
import json, os, glob, subprocess, sys
ENV = dict(os.environ, GOFLAGS="-mod=mod -trimpath", GOPROXY="off", GOSUMDB="off", GOTOOLCHAIN="local")
def sh(cmd, cwd=None):
    p = subprocess.run(cmd, shell=True, cwd=cwd, capture_output=True, text=True, env=ENV)
    return p.returncode, p.stdout + p.stderr
rc, out = sh("git -C /repo status --porcelain")
if out.strip():
    print("refusing: /repo not clean"); sys.exit(2)
bad = 0
only = set(sys.argv[1:])
touched = set()
for d in sorted(glob.glob('/verif/seeded/*/')):
    name = os.path.basename(d.rstrip('/'))
    if only and name not in only: continue
    m = json.load(open(d + 'meta.json'))
    props = [m['breaks_property']] + [p for p in (m.get('caught_by') or []) if p != m['breaks_property']]
    rc, out = sh("git -C /repo apply %spatch.diff" % d)
    if rc != 0:
        print("%-10s patch no longer applies (tree moved on): %s" % (name, out.strip()[:100])); m['stale'] = True
        json.dump(m, open(d + 'meta.json', 'w'), indent=1); continue
    det = {}
    try:
        for p in props:
            r, o = sh("./run.sh quick %s" % p, cwd="/verif"); touched.add(p)
            det[p] = {"exit": r, "reports": [l for l in o.splitlines() if l.startswith(("VIOLATED", "UNDECIDED"))][:6]}
    finally:
        sh("git -C /repo checkout -- .")
    caught = [p for p, v in det.items() if v['exit'] == 1]
    was = m.get('caught_by') or []
    m['checks_run'], m['caught_by'], m['stale'] = det, caught, False
    json.dump(m, open(d + 'meta.json', 'w'), indent=1)
    flag = ''
    if was and not caught: flag = '  <-- REGRESSION: was reported, now missed'; bad += 1
    print("%-10s %s%s" % (name, caught if caught else 'NOT REPORTED', flag))
for p in sorted(touched):
    sh("./run.sh quick %s" % p, cwd="/verif")   # restore evidence for the unchanged tree
sys.exit(1 if bad else 0)
