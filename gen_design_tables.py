#!/usr/bin/env python3
"""Regenerates the generated tables of DESIGN.md section 11 (seeded regressions, fixes) from /verif/seeded and known_findings.json."""
import json,glob,os,re
rows=[]
for d in sorted(glob.glob('/verif/seeded/*/meta.json')):
    m=json.load(open(d)); name=os.path.basename(os.path.dirname(d))
    what=(m.get('what_changed') or '').replace('\n',' ').replace('|','/')
    what=what[:150]+('…' if len(what)>150 else '')
    caught=m.get('caught_by') or []
    rules=set()
    for p,c in (m.get('checks_run') or {}).items():
        for r in c.get('reports',[]):
            mm=re.search(r': (C\d\d\.[a-z0-9]+)/',r)
            if mm: rules.add(mm.group(1))
    rows.append('| %s | %s | %s |'%(name,what,', '.join(sorted(rules)) if caught else '**not reported**'))
seed_tbl='| seed | change (author\'s words, abridged) | reported by |\n|------|--------|-------------|\n'+'\n'.join(rows)
k=json.load(open('/verif/known_findings.json'))['findings']
fx={}
for f in k:
    if f['status']=='fixed': fx.setdefault((f['property'],f.get('commit','')),f)
fix_rows=['| %s | %s | %s |'%(p,c,f['what'].replace('|','/')[:170]) for (p,c),f in sorted(fx.items())]
op=[f for f in k if f['status']=='open']
open_rows=['| %s | %s | %s |'%(f['property'],f['key'].replace('|','/')[:90],f['what'].replace('|','/')[:150]) for f in op]
s=open('/verif/DESIGN.md').read()
def put(s,tag,body):
    a='<!-- BEGIN %s -->'%tag; b='<!-- END %s -->'%tag
    if a in s:
        return s[:s.index(a)+len(a)]+'\n'+body+'\n'+s[s.index(b):]
    return s+'\n'+a+'\n'+body+'\n'+b+'\n'
s=put(s,'SEEDS',seed_tbl)
s=put(s,'FIXES','| property | commit | what failed |\n|---|---|---|\n'+'\n'.join(fix_rows))
s=put(s,'OPEN','| property | obligation | what fails |\n|---|---|---|\n'+'\n'.join(open_rows))
open('/verif/DESIGN.md','w').write(s)
print(len(rows),'seeds',len(fix_rows),'fixes',len(open_rows),'open')
