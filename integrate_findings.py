#!/usr/bin/env python3
"""integrate_findings.py <findings.json> [patchname=commit ...]: merge an author's findings list into known_findings.json"""
import json,sys
src=json.load(open(sys.argv[1]))
commits=dict(a.split('=') for a in sys.argv[2:])
d=json.load(open('/verif/known_findings.json'))
have={(f['property'],f['key'],f['status']) for f in d['findings']}
n=0
for f in src:
    e={"property":f["property"],"rule":f["rule"],"key":f["key"],"status":f["status"],"id":f.get("id",""),"what":f["what"]}
    if f["status"]=="fixed":
        p=f.get("fix_patch","").split('/')[-1]
        if p not in commits:
            print("no commit given for",p); sys.exit(1)
        e["commit"]=commits[p]
        e["line"]="fixed: property=%s %s %s"%(f["property"],commits[p],f["what"].split(". Fix")[0][:300])
    if (e['property'],e['key'],e['status']) in have: continue
    d['findings'].append(e); n+=1
json.dump(d,open('/verif/known_findings.json','w'),indent=1)
print("merged",n)
