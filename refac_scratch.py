#!/usr/bin/env python3
"""Negative controls in scratch copies (never touches /repo): every behaviour-preserving diff given (files or
directories containing *.diff) is applied to a copy of the repository and all 20 checks must stay silent.
usage: refac_scratch.py <diff-or-dir> ..."""
import concurrent.futures as cf, glob, os, shutil, subprocess, sys, tempfile
HERE = os.path.dirname(os.path.abspath(__file__))
REPO = os.environ.get("VERIF_REPO", "/repo")
BIN = os.path.join(HERE, "bin", "vxcheck")
ENV = dict(os.environ, GOFLAGS="-mod=mod -trimpath", GOPROXY="off", GOSUMDB="off", GOTOOLCHAIN="local", GOWORK="off")
props = subprocess.run([BIN, "-list"], capture_output=True, text=True).stdout.split()
files = []
for a in sys.argv[1:]:
    files += sorted(glob.glob(os.path.join(a, "*.diff"))) if os.path.isdir(a) else [a]
def one(f):
    tmp = tempfile.mkdtemp(prefix="vxneg_")
    try:
        dst = os.path.join(tmp, "repo")
        shutil.copytree(REPO, dst, ignore=shutil.ignore_patterns(".git"))
        a = subprocess.run(["git", "apply", "--unsafe-paths", "--directory=" + dst, f], capture_output=True, text=True, cwd=tmp)
        if a.returncode != 0:
            return f, None, [a.stderr[-200:]]
        b = subprocess.run(["go", "build", "./..."], cwd=dst, env=ENV, capture_output=True, text=True)
        if b.returncode != 0:
            return f, None, ["does not build: " + b.stderr[-200:]]
        bad = []
        for p in props:
            r = subprocess.run([BIN, "-p", p, "-repo", dst, "-verif", HERE, "-no-evidence"], capture_output=True, text=True, env=ENV)
            if r.returncode != 0:
                bad.append((p, [l for l in (r.stdout + r.stderr).splitlines() if l.startswith(("VIOLATED", "UNDECIDED"))][:3]))
        return f, bad, None
    finally:
        shutil.rmtree(tmp, ignore_errors=True)
alarms = 0
with cf.ThreadPoolExecutor(max_workers=int(os.environ.get("ROBUST_JOBS", "4"))) as ex:
    for f, bad, err in ex.map(one, files):
        name = os.path.relpath(f, HERE) if f.startswith(HERE) else f
        if err:
            print("%s: skipped: %s" % (name, err[0])); continue
        if bad:
            alarms += 1
            print("%s: FALSE ALARM in %s" % (name, [p for p, _ in bad]))
            for p, ls in bad:
                for l in ls:
                    print("       " + l[:300])
        else:
            print("%s: silent" % name)
print("refactorings checked: %d, with alarms: %d" % (len(files), alarms))
