#!/usr/bin/env python3
"""Confirm a seeded regression and run the checks against it.

usage: seed_eval.py <Cxx> <a|b|...> [--props C01,C02,...] [--keep]
Reads /tmp/seed/<Cxx>/patch_<x>.diff, demo_<x>_test.go, meta_<x>.json.
 1. In a fresh scratch worktree of /repo HEAD (under /tmp): the demo passes without
    the patch, fails with it, and the rest of the suite passes with it.
 2. Applies the patch to /repo (git apply), runs ./run.sh quick for the given
    properties (default: the seeded property), and undoes it (git checkout -- .).
 3. With --keep, stores /verif/seeded/<Cxx>_<x>/{patch.diff,demo_test.go,meta.json}.
"""
import json, os, shutil, subprocess, sys, tempfile

ENV = dict(os.environ, GOFLAGS="-mod=mod -trimpath", GOPROXY="off", GOSUMDB="off", GOTOOLCHAIN="local")

def sh(cmd, cwd=None, timeout=900):
    p = subprocess.run(cmd, shell=True, cwd=cwd, capture_output=True, text=True, env=ENV, timeout=timeout)
    return p.returncode, p.stdout + p.stderr

def main():
    pid, x = sys.argv[1], sys.argv[2]
    props = [pid]
    keep = "--keep" in sys.argv
    for i, a in enumerate(sys.argv):
        if a == "--props":
            props = sys.argv[i + 1].split(",")
    src = os.path.join(os.environ.get("SEED_DIR", "/tmp/seed"), pid)
    patch = os.path.join(src, "patch_%s.diff" % x)
    demo = os.path.join(src, "demo_%s_test.go" % x)
    meta = json.load(open(os.path.join(src, "meta_%s.json" % x)))
    pkgdir = meta.get("demo_package_dir", ".")
    res = {"property": pid, "variant": x, "meta": meta}
    wt = tempfile.mkdtemp(prefix="seedeval_")
    os.rmdir(wt)
    rc, out = sh("git -C /repo worktree add --detach %s HEAD" % wt)
    try:
        demo_dst = os.path.join(wt, pkgdir, "zz_demo_%s_%s_test.go" % (pid, x))
        shutil.copy(demo, demo_dst)
        pk = "./" + pkgdir.strip("./") if pkgdir not in (".", "") else "."
        rc0, out0 = sh("go test -count=1 %s" % pk, cwd=wt)
        res["demo_passes_without_patch"] = rc0 == 0
        rca, outa = sh("git apply %s" % patch, cwd=wt)
        res["patch_applies"] = rca == 0
        if rca != 0:
            res["apply_error"] = outa[-500:]
        rc1, out1 = sh("go build ./... && go test -count=1 %s" % pk, cwd=wt)
        res["demo_fails_with_patch"] = rc1 != 0
        os.remove(demo_dst)
        rc2, out2 = sh("go build ./... && go test -count=1 ./...", cwd=wt)
        res["suite_passes_with_patch"] = rc2 == 0
        if rc2 != 0:
            res["suite_output"] = out2[-800:]
    finally:
        sh("git -C /repo worktree remove --force %s" % wt)
    confirmed = res.get("demo_passes_without_patch") and res.get("patch_applies") and res.get("demo_fails_with_patch") and res.get("suite_passes_with_patch")
    res["confirmed"] = bool(confirmed)
    if os.environ.get("SEED_SCRATCH"):
        # same evaluation against a patched scratch copy (used while other jobs read /repo)
        sc = tempfile.mkdtemp(prefix="seedscratch_")
        detected = {}
        try:
            sh("rsync -a --exclude .git /repo/ %s/r/" % sc)
            rc, out = sh("git apply --unsafe-paths --directory=%s/r %s" % (sc, patch), cwd=sc)
            if rc == 0:
                sh("./run.sh build", cwd="/verif")
                for p in props:
                    rcq, outq = sh("/verif/bin/vxcheck -p %s -tier quick -repo %s/r -verif /verif -no-evidence" % (p, sc), cwd="/verif")
                    lines = [l for l in outq.splitlines() if l.startswith(("VIOLATED", "UNDECIDED"))]
                    detected[p] = {"exit": rcq, "reports": lines[:6]}
        finally:
            shutil.rmtree(sc, ignore_errors=True)
        finish(res, detected, keep, pid, x, patch, demo, meta, pkgdir)
        return
    # run the checks against the patched /repo
    rc, out = sh("git -C /repo status --porcelain")
    if out.strip():
        print("refusing: /repo working tree is not clean"); sys.exit(2)
    detected = {}
    rc, out = sh("git -C /repo apply %s" % patch)
    try:
        if rc == 0:
            for p in props:
                rcq, outq = sh("./run.sh quick %s" % p, cwd="/verif")
                lines = [l for l in outq.splitlines() if l.startswith(("VIOLATED", "UNDECIDED"))]
                detected[p] = {"exit": rcq, "reports": lines[:6]}
    finally:
        sh("git -C /repo checkout -- .")
        # evidence files were rewritten against the patched tree: restore them
        for p in props:
            sh("./run.sh quick %s" % p, cwd="/verif")
    finish(res, detected, keep, pid, x, patch, demo, meta, pkgdir)

def finish(res, detected, keep, pid, x, patch, demo, meta, pkgdir):
    res["checks"] = detected
    res["caught_by"] = [p for p, d in detected.items() if d["exit"] == 1]
    print(json.dumps({k: v for k, v in res.items() if k != "meta"}, indent=1))
    if keep:
        d = "/verif/seeded/%s_%s%s" % (pid, x, os.environ.get("SEED_TAG", ""))
        os.makedirs(d, exist_ok=True)
        shutil.copy(patch, os.path.join(d, "patch.diff"))
        shutil.copy(demo, os.path.join(d, "demo_test.go"))
        json.dump({"breaks_property": pid, "what_changed": meta.get("what_changed"), "why": meta.get("why_it_breaks_the_property"),
                   "needs_to_manifest": meta.get("needs_to_manifest"), "demo_package_dir": pkgdir,
                   "confirmed_by_me": {k: res.get(k) for k in ("demo_passes_without_patch", "patch_applies", "demo_fails_with_patch", "suite_passes_with_patch")},
                   "what_i_ran": ["fresh worktree of /repo HEAD: go test <demo pkg> (pass); git apply patch.diff; go test <demo pkg> (fail); go test ./... without the demo (pass)",
                                  "git -C /repo apply patch.diff; ./run.sh quick <props>; git -C /repo checkout -- ."],
                   "checks_run": detected, "caught_by": res["caught_by"]}, open(os.path.join(d, "meta.json"), "w"), indent=1)

if __name__ == "__main__":
    main()
