#!/usr/bin/env python3
"""Positive controls for the static checks ("test the checker both ways").

Each entry of selftest/mutations.json is a micro-mutation of /repo:
  {"id":..., "property": "C11", "file": "window.go", "old": "...", "new": "...", "expect": "substring of the obligation key that must be reported"}
For each one a scratch copy of /repo is made outside /repo and /verif, the
mutation applied, the property's check run with -repo <copy> -no-evidence, and
the copy removed. The check must exit 1 and report a VIOLATED/UNDECIDED line
containing `expect`. A mutation whose `old` text is not present any more (the
tree was edited) is skipped and counted as skipped.

usage: selftest.py [Cxx ...]   (no args: all)      exit 0 iff no control failed
"""
import json, os, shutil, subprocess, sys, tempfile, concurrent.futures as cf

HERE = os.path.dirname(os.path.abspath(__file__))
REPO = os.environ.get("VERIF_REPO", "/repo")
BIN = os.path.join(HERE, "bin", "vxcheck")

def run_one(m):
    src = os.path.join(REPO, m["file"])
    try:
        text = open(src).read()
    except OSError:
        return (m, "skipped", "file missing")
    if text.count(m["old"]) < 1:
        return (m, "skipped", "old text not present")
    tmp = tempfile.mkdtemp(prefix="vxself_")
    try:
        dst = os.path.join(tmp, "repo")
        shutil.copytree(REPO, dst, ignore=shutil.ignore_patterns(".git"))
        idx = m.get("occurrence", 1)
        parts = text.split(m["old"])
        if len(parts) - 1 < idx:
            return (m, "skipped", "occurrence not present")
        new = m["old"].join(parts[:idx]) + m["new"] + m["old"].join(parts[idx:])
        open(os.path.join(dst, m["file"]), "w").write(new)
        p = subprocess.run([BIN, "-p", m["property"], "-repo", dst, "-verif", HERE, "-no-evidence"], capture_output=True, text=True)
        out = p.stdout + p.stderr
        hit = [l for l in out.splitlines() if (l.startswith("VIOLATED") or l.startswith("UNDECIDED")) and m["expect"] in l]
        if p.returncode == 1 and hit:
            return (m, "caught", hit[0][:200])
        if "LOAD" in out and "type errors" in out:
            return (m, "broken", "mutant does not compile: " + out[:300])
        return (m, "MISSED", "exit=%d; no reported obligation contains %r; output tail: %s" % (p.returncode, m["expect"], out[-400:]))
    finally:
        shutil.rmtree(tmp, ignore_errors=True)


def trim_go_cache(limit_gb=80):
    """Scratch copies used to fill the Go build cache (one set of export data per scratch path) until the disk was
    full; the loader now builds with -trimpath, which makes the entries path-independent. Safety valve all the same."""
    try:
        out = subprocess.run(["go", "env", "GOCACHE"], capture_output=True, text=True).stdout.strip()
        if not out or not os.path.isdir(out):
            return
        kb = int(subprocess.run(["du", "-sk", out], capture_output=True, text=True).stdout.split()[0])
        if kb > limit_gb * 1024 * 1024:
            subprocess.run(["go", "clean", "-cache"], capture_output=True)
    except Exception:
        pass


def main():
    want = set(sys.argv[1:])
    muts = []
    import glob
    for f in sorted(glob.glob(os.path.join(HERE, "selftest", "mutations*.json"))):
        muts += json.load(open(f))
    muts = [m for m in muts if not want or m["property"] in want]
    res = []
    with cf.ThreadPoolExecutor(max_workers=8) as ex:
        for r in ex.map(run_one, muts):
            res.append(r)
    bad = 0
    counts = {}
    for m, st, why in res:
        counts[st] = counts.get(st, 0) + 1
        if st in ("MISSED", "broken"):
            bad += 1
        print("selftest %-8s %-4s %-28s %s" % (st, m["property"], m["id"], why if st != "caught" else ""))
    trim_go_cache()
    print("selftest summary: " + " ".join("%s=%d" % kv for kv in sorted(counts.items())))
    sys.exit(1 if bad else 0)

if __name__ == "__main__":
    main()
