#!/usr/bin/env python3
# behaviour-preserving edits on the patched copy: the check must stay green
import os, shutil, subprocess, sys, tempfile
BASE=os.environ.get('C17_PATCHED_REPO','/tmp/agents/C17/probe')  # a copy of /repo with fixes/*.patch applied
BIN=os.environ.get('VXCHECK','/tmp/agents/C17/verif/bin/vxcheck')
TF='vxfw/textfield/textfield.go'
TI='widgets/textinput/textinput.go'
N=[]
def add(id,file,edits): N.append((id,file,edits))
add('n1-reset-reordered',TF,[("\ttf.n = 0\n\ttf.Value = \"\"\n","\ttf.Value = \"\"\n\ttf.n = 0\n")])
add('n2-clamps-swapped',TI,[("\tif m.cursor > len(m.content) {\n\t\tm.cursor = len(m.content)\n\t}\n\tif m.cursor < 0 {\n\t\tm.cursor = 0\n\t}\n","\tif m.cursor < 0 {\n\t\tm.cursor = 0\n\t}\n\tif len(m.content) < m.cursor {\n\t\tm.cursor = len(m.content)\n\t}\n")])
add('n3-change-test-operands-swapped',TF,[("if tf.Value == pre {","if pre == tf.Value {")])
add('n4-bound-as-break',TI,[("\tfor m.offset < m.cursor && widthToCursor(chars, m.cursor, m.offset)+col+scrolloff >= winW {\n\t\tm.offset += 1\n\t}","\tfor widthToCursor(chars, m.cursor, m.offset)+col+scrolloff >= winW {\n\t\tif m.offset >= m.cursor {\n\t\t\tbreak\n\t\t}\n\t\tm.offset++\n\t}")])
add('n5-incdec-forms',TI,[("\t\t\tm.cursor += 1\n\t\tcase \"Ctrl+b\"","\t\t\tm.cursor++\n\t\tcase \"Ctrl+b\""),("\t\t\tm.cursor -= 1\n\t\tcase \"Alt+f\"","\t\t\tm.cursor = m.cursor - 1\n\t\tcase \"Alt+f\"")])
add('n6-cursorto-operands-swapped',TF,[("if i > tf.n {","if tf.n < i {")])
add('n7-enter-arm-restructured',TF,[("\t\t\tif tf.OnSubmit != nil {\n\t\t\t\treturn tf.OnSubmit(tf.Value)\n\t\t\t}\n\t\t\treturn vxfw.ConsumeAndRedraw(), nil","\t\t\tif tf.OnSubmit == nil {\n\t\t\t\treturn vxfw.ConsumeAndRedraw(), nil\n\t\t\t}\n\t\t\treturn tf.OnSubmit(tf.Value)")])
add('n8-helper-renamed',TF,[("graphemeCountInString","countGraphemes")])
add('n9-final-clamp-as-switch',TI,[("\tif m.cursor > len(m.content) {\n\t\tm.cursor = len(m.content)\n\t}\n\tif m.cursor < 0 {\n\t\tm.cursor = 0\n\t}\n","\tswitch {\n\tcase m.cursor > len(m.content):\n\t\tm.cursor = len(m.content)\n\tcase m.cursor < 0:\n\t\tm.cursor = 0\n\t}\n")])
add('n10-bound-by-length',TI,[("for m.offset < m.cursor && widthToCursor(","for m.offset < len(chars) && widthToCursor(")])
add('n11-setvalue-helper',TF,[("\ttf.Value = next.String()\n\ttf.n = graphemeCountInString(tf.Value)\n","\ttf.setValue(next.String())\n"),("func graphemeCountInString(s string) uint {","func (tf *TextField) setValue(s string) {\n\ttf.Value = s\n\ttf.n = graphemeCountInString(s)\n}\n\nfunc graphemeCountInString(s string) uint {")])
add('n12-receiver-renamed',TF,[("func (tf *TextField) Reset() {\n\ttf.n = 0\n\ttf.Value = \"\"\n\ttf.cursor = 0\n}","func (f *TextField) Reset() {\n\tf.n = 0\n\tf.Value = \"\"\n\tf.cursor = 0\n}")])
add('n13-if-chain-to-switch',TF,[("\t\tif ev.Matches('k', vaxis.ModCtrl) {\n\t\t\tpre := tf.Value\n\t\t\tcmd := tf.DeleteCursorToEndOfLine()\n\t\t\treturn tf.checkChanged(cmd, pre)\n\t\t}","\t\tswitch {\n\t\tcase ev.Matches('k', vaxis.ModCtrl):\n\t\t\told := tf.Value\n\t\t\tc := tf.DeleteCursorToEndOfLine()\n\t\t\treturn tf.checkChanged(c, old)\n\t\t}")])
add('n14-update-count-then-value',TF,[("\ttf.setValue(next.String())\n","\ttf.setValue(next.String())\n")])  # placeholder no-op (skipped)
add('n15-new-binding-added',TI,[("\t\tcase \"Ctrl+k\":\n","\t\tcase \"Ctrl+k\", \"Alt+k\":\n")])
add('n16-typed-text-via-helper',TI,[("\t\t\t\tchars := vaxis.Characters(msg.Text)\n\t\t\t\tfor _, char := range chars {\n\t\t\t\t\tm.content = slices.Insert(m.content, m.cursor, char)\n\t\t\t\t\tm.cursor += 1\n\t\t\t\t}","\t\t\t\tchars := vaxis.Characters(msg.Text)\n\t\t\t\tm.content = slices.Insert(m.content, m.cursor, chars...)\n\t\t\t\tm.cursor += len(chars)")])

add('n17-clamp-helper',TI,[("\tif m.cursor > len(m.content) {\n\t\tm.cursor = len(m.content)\n\t}\n\tif m.cursor < 0 {\n\t\tm.cursor = 0\n\t}\n}","\tm.clampCursor()\n}\n\nfunc (m *Model) clampCursor() {\n\tif m.cursor > len(m.content) {\n\t\tm.cursor = len(m.content)\n\t}\n\tif m.cursor < 0 {\n\t\tm.cursor = 0\n\t}\n}")])
add('n18-submit-snapshot-then-reset',TF,[("\t\t\tdefer tf.Reset()\n\t\t\tif tf.OnSubmit != nil {\n\t\t\t\treturn tf.OnSubmit(tf.Value)\n\t\t\t}","\t\t\tline := tf.Value\n\t\t\ttf.Reset()\n\t\t\tif tf.OnSubmit != nil {\n\t\t\t\treturn tf.OnSubmit(line)\n\t\t\t}")])
add('n19-change-check-combined-condition',TF,[("\tif tf.Value == pre {\n\t\treturn cmd, nil\n\t}\n","\tif tf.OnChange == nil || tf.Value == pre {\n\t\treturn cmd, nil\n\t}\n")])
add('n20-deferred-clamp',TI,[("func (m *Model) Update(msg vaxis.Event) {\n","func (m *Model) Update(msg vaxis.Event) {\n\tdefer m.clampCursor()\n"),("\tif m.cursor > len(m.content) {\n\t\tm.cursor = len(m.content)\n\t}\n\tif m.cursor < 0 {\n\t\tm.cursor = 0\n\t}\n}","}\n\nfunc (m *Model) clampCursor() {\n\tif m.cursor > len(m.content) {\n\t\tm.cursor = len(m.content)\n\t}\n\tif m.cursor < 0 {\n\t\tm.cursor = 0\n\t}\n}")])
add('n21-count-before-store-via-local',TF,[("\ttf.Value = next.String()\n\ttf.n = graphemeCountInString(tf.Value)\n\ttf.cursor -= 1","\tv := next.String()\n\ttf.n = graphemeCountInString(v)\n\ttf.Value = v\n\ttf.cursor -= 1")])
add('n22-word-loop-rewritten',TI,[("\t\t\tfor i := m.cursor; i < len(m.content); i += 1 {\n\t\t\t\tif !isAlphaNumeric(m.content[i]) {\n\t\t\t\t\tm.cursor += 1\n\t\t\t\t\tcontinue\n\t\t\t\t}\n\t\t\t\tbreak\n\t\t\t}","\t\t\tfor m.cursor < len(m.content) && !isAlphaNumeric(m.content[m.cursor]) {\n\t\t\t\tm.cursor++\n\t\t\t}")])
add('n23-delete-with-slices-delete-like',TI,[("\t\t\tdefault:\n\t\t\t\tm.content = append(m.content[:m.cursor], m.content[m.cursor+1:]...)","\t\t\tdefault:\n\t\t\t\tcopy(m.content[m.cursor:], m.content[m.cursor+1:])\n\t\t\t\tm.content = m.content[:len(m.content)-1]")])
add('n24-incremental-count (undecided expected)',TF,[("\ttf.Value = next.String()\n\ttf.n = graphemeCountInString(tf.Value)\n\ttf.cursor -= 1","\ttf.Value = next.String()\n\ttf.n -= 1\n\ttf.cursor -= 1")])

add('n25-matchstring-dispatch',TF,[("if ev.Matches('k', vaxis.ModCtrl) {","if ev.MatchString(\"Ctrl+k\") {")])
add('n26-binding-moved-out-of-switch',TI,[("\t\tswitch msg.String() {\n","\t\tif msg.Matches('k', vaxis.ModCtrl) {\n\t\t\tm.content = m.content[:m.cursor]\n\t\t\treturn\n\t\t}\n\t\tswitch msg.String() {\n"),("\t\tcase \"Ctrl+k\":\n\t\t\tm.content = m.content[:m.cursor]\n","")])
bad=0
for id,file,edits in N:
    text=open(os.path.join(BASE,file)).read()
    new=text
    ok=True
    for old,nw in edits:
        if old not in new: ok=False; break
        if old=="graphemeCountInString": new=new.replace(old,nw)
        elif id=='n11-setvalue-helper' and old.startswith("\ttf.Value = next"): new=new.replace(old,nw)
        else: new=new.replace(old,nw,1)
    if not ok or new==text:
        print("neg %-34s skipped (text absent)"%id); continue
    tmp=tempfile.mkdtemp(prefix='vxneg_')
    try:
        dst=os.path.join(tmp,'repo'); shutil.copytree(BASE,dst)
        open(os.path.join(dst,file),'w').write(new)
        p=subprocess.run([BIN,'-p','C17','-repo',dst,'-verif','/tmp/agents/C17/verif','-no-evidence'],capture_output=True,text=True)
        out=(p.stdout+p.stderr)
        if p.returncode==0: print("neg %-34s green"%id)
        else:
            bad+=1
            print("neg %-34s FIRED exit=%d\n   %s"%(id,p.returncode,"\n   ".join(l[:300] for l in out.splitlines() if not l.startswith('VIOLATION'))))
    finally: shutil.rmtree(tmp,ignore_errors=True)
sys.exit(1 if bad else 0)
