#!/usr/bin/env python3
"""Negative controls: behaviour-preserving refactorings must not raise any alarm.
usage: refac_eval.py <dir with r*.diff> ...   Applies each patch to /repo, runs every registered check
(-no-evidence), undoes it. Prints every alarm (= false alarm to be fixed in the checker)."""
import glob, os, subprocess, sys, concurrent.futures as cf
ENV = dict(os.environ, GOFLAGS="-mod=mod -trimpath", GOPROXY="off", GOSUMDB="off", GOTOOLCHAIN="local")
def sh(cmd, cwd=None):
    p = subprocess.run(cmd, shell=True, cwd=cwd, capture_output=True, text=True, env=ENV)
    return p.returncode, p.stdout + p.stderr
props = sh("/verif/bin/vxcheck -list")[1].split()
rc, out = sh("git -C /repo status --porcelain")
if out.strip():
    print("refusing: /repo not clean"); sys.exit(2)
def run(p):
    r, o = sh("/verif/bin/vxcheck -p %s -repo /repo -verif /verif -no-evidence" % p)
    return p, r, [l for l in o.splitlines() if l.startswith(("VIOLATED", "UNDECIDED"))]
total = alarms = 0
for d in sys.argv[1:]:
    for f in sorted(glob.glob(os.path.join(d, "r*.diff"))):
        rc, out = sh("git -C /repo apply %s" % f)
        if rc != 0:
            print("%s: does not apply: %s" % (f, out.strip()[:120])); continue
        total += 1
        try:
            rb, ob = sh("go build ./...", cwd="/repo")
            if rb != 0:
                print("%s: does not build" % f); continue
            with cf.ThreadPoolExecutor(max_workers=10) as ex:
                res = list(ex.map(run, props))
        finally:
            sh("git -C /repo checkout -- .")
        bad = [(p, l) for p, r, l in res if r != 0]
        if bad:
            alarms += 1
            print("%s: FALSE ALARM in %s" % (f, [p for p, _ in bad]))
            for p, l in bad:
                for x in l[:3]:
                    print("      ", x[:260])
        else:
            print("%s: silent" % f)
print("refactorings checked: %d, with alarms: %d" % (total, alarms))
