#!/usr/bin/env python3
"""Both-ways evaluation of ONE property's check without touching /repo (safe to run concurrently,
from any copy of /verif: all paths are relative to this file; the repository is read from $VERIF_REPO or /repo).

  robust_eval.py Cxx [neg] [seeds] [self] [base]      (no selector: all four)

  base   the check on the unchanged tree must exit 0
  neg    every behaviour-preserving refactoring negative/*/r*.diff must leave the check SILENT
  seeds  every kept seeded regression of the property (seeded/*/patch.diff whose meta names the property as
         broken or as catching it) must be REPORTED (exit 1)
  self   selftest.py Cxx (micro-mutations)

Each variant is analysed in a scratch copy of the repository under $TMPDIR, removed afterwards.
Exit 0 iff everything is as expected. Lines: NEG-ALARM / SEED-MISSED / BASE-ALARM are the problems."""
import concurrent.futures as cf, glob, json, os, shutil, subprocess, sys, tempfile

HERE = os.path.dirname(os.path.abspath(__file__))
REPO = os.environ.get("VERIF_REPO", "/repo")
BIN = os.path.join(HERE, "bin", "vxcheck")
ENV = dict(os.environ, GOFLAGS="-mod=mod -trimpath", GOPROXY="off", GOSUMDB="off", GOTOOLCHAIN="local", GOWORK="off")


def check(prop, repo):
    p = subprocess.run([BIN, "-p", prop, "-repo", repo, "-verif", HERE, "-no-evidence"], capture_output=True, text=True, env=ENV)
    lines = [l for l in (p.stdout + p.stderr).splitlines() if l.startswith(("VIOLATED", "UNDECIDED"))]
    return p.returncode, lines


def with_patch(prop, patch):
    tmp = tempfile.mkdtemp(prefix="vxrob_")
    try:
        dst = os.path.join(tmp, "repo")
        shutil.copytree(REPO, dst, ignore=shutil.ignore_patterns(".git"))
        a = subprocess.run(["git", "apply", "--unsafe-paths", "--directory=" + dst, patch], capture_output=True, text=True, cwd=tmp)
        if a.returncode != 0:
            a = subprocess.run(["patch", "-p1", "-s", "-i", patch], capture_output=True, text=True, cwd=dst)
            if a.returncode != 0:
                return None, ["patch does not apply: " + (a.stdout + a.stderr)[-200:]]
        rc, lines = check(prop, dst)
        if rc != 0:
            # an alarm on a tree that does not compile says nothing: the diff is stale (a later fix: commit changed its context)
            b = subprocess.run(["go", "build", "./..."], cwd=dst, env=ENV, capture_output=True, text=True)
            if b.returncode != 0:
                return None, ["patched tree does not build (stale diff): " + (b.stdout + b.stderr).strip().splitlines()[-1][:160]]
        return rc, lines
    finally:
        shutil.rmtree(tmp, ignore_errors=True)



def trim_go_cache(limit_gb=80):
    """Scratch copies used to fill the Go build cache (one set of export data per scratch path) until the disk was
    full; the loader now builds with -trimpath, which makes the entries path-independent. Safety valve all the same."""
    try:
        out = subprocess.run(["go", "env", "GOCACHE"], capture_output=True, text=True).stdout.strip()
        if not out or not os.path.isdir(out):
            return
        kb = int(subprocess.run(["du", "-sk", out], capture_output=True, text=True).stdout.split()[0])
        if kb > limit_gb * 1024 * 1024:
            subprocess.run(["go", "clean", "-cache"], capture_output=True)
    except Exception:
        pass


def main():
    prop = sys.argv[1]
    sel = set(sys.argv[2:]) or {"base", "neg", "seeds", "self"}
    subprocess.run([os.path.join(HERE, "run.sh"), "build"], env=ENV)
    bad = 0
    if "base" in sel:
        rc, lines = check(prop, REPO)
        if rc != 0:
            bad += 1
            print("BASE-ALARM %s exit=%d" % (prop, rc))
            for l in lines[:8]:
                print("      " + l[:300])
        else:
            print("base ok")
    jobs = []
    if "neg" in sel:
        for f in sorted(glob.glob(os.path.join(HERE, "negative", "*", "*.diff"))):
            jobs.append(("neg", f))
    if "seeds" in sel:
        for d in sorted(glob.glob(os.path.join(HERE, "seeded", "*", ""))):
            try:
                m = json.load(open(d + "meta.json"))
            except Exception:
                continue
            if m.get("stale"):
                continue
            if m.get("breaks_property") == prop or prop in (m.get("caught_by") or []):
                jobs.append(("seed", d + "patch.diff"))
    with cf.ThreadPoolExecutor(max_workers=int(os.environ.get("ROBUST_JOBS", "3"))) as ex:
        res = list(ex.map(lambda j: (j, with_patch(prop, j[1])), jobs))
    nneg = nseed = 0
    for (kind, f), (rc, lines) in res:
        name = os.path.relpath(f, HERE)
        if rc is None:
            print("skip %s: %s" % (name, lines[0]))
            continue
        if kind == "neg":
            nneg += 1
            if rc != 0:
                bad += 1
                print("NEG-ALARM %s %s" % (prop, name))
                for l in lines[:6]:
                    print("      " + l[:330])
        else:
            nseed += 1
            if rc != 1:
                # a seed of another property that this check happened to catch before is not a miss of this property
                m = json.load(open(os.path.join(os.path.dirname(f), "meta.json")))
                if m.get("breaks_property") == prop and not [p for p in (m.get("caught_by") or []) if p != prop]:
                    bad += 1
                    print("SEED-MISSED %s %s" % (prop, name))
                else:
                    print("seed-not-reported-here %s %s (caught by %s)" % (prop, name, m.get("caught_by")))
    print("negatives run: %d, seeds run: %d" % (nneg, nseed))
    if "self" in sel:
        p = subprocess.run([sys.executable, os.path.join(HERE, "selftest.py"), prop], capture_output=True, text=True, env=ENV)
        for l in p.stdout.splitlines():
            if "MISSED" in l or "broken" in l or "summary" in l:
                print(l[:300])
        if p.returncode != 0:
            bad += 1
    trim_go_cache()
    print("RESULT %s: %s" % (prop, "OK" if bad == 0 else "%d problem group(s)" % bad))
    sys.exit(1 if bad else 0)


if __name__ == "__main__":
    main()
