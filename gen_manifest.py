#!/usr/bin/env python3
"""Regenerates /verif/MANIFEST.json from the table below and the list of
properties the checker has registered (bin/vxcheck -list). A property without
a registered check is listed under not_applicable with its reason."""
import json, subprocess, os, sys

HERE = os.path.dirname(os.path.abspath(__file__))

# id -> (technique, level text, level note, design ref, reason-if-not-claimed)
P = {
 "C01": ("emission-site extraction with dominating guards (AST + go/cfg), pairing/ordering rules over the CFG of render/Flush/Render",
         "Decides structural necessary conditions of frame rendering on every path: flush prologue/epilogue pairing, cursor shown only when requested, hyperlink closed before repositioning and at frame end, refresh disables the skip branch, resize paired update, pen bookkeeping. Does not decide that the diff algorithm reproduces the screen for every frame history.",
         "Go type checker, go/cfg; each clause is a necessary condition only", "DESIGN.md 4/C01"),
 "C02": ("abstract interpretation of the parser's state functions: exhaustive product automaton (state x control flags) x 133-symbol alphabet compared with a VT500 reference table; typestate of exit handler and ST-suppression flag",
         "Decides completely the transition/action table of the parser (every reachable control state x every byte class) against an independent transcription of the Williams VT500 diagram with the documented extensions, the exit-handler typestate, and ST suppression as a trace property of the extracted automaton. Does not decide parameter arithmetic, grapheme clustering or read-chunk independence.",
         "interpreter in checker/interp.go is exact for the statement forms the state functions use and reports anything else as undecided; reference table transcribed by hand from vt100.net/emu/dec_ansi_parser", "DESIGN.md 4/C02"),
 "C03": ("length-guard dataflow over go/cfg for parser-supplied slices; channel-effect rules on the input goroutine (non-blocking hand-off, allowed drops); must-precede rules for paste marking",
         "Decides that every index into a parser-supplied slice on the input path is dominated by a sufficient length test, that no reply hand-off from the input goroutine can block forever, and that key events pass the paste-marking assignment. Does not decide exact decoding of every report or event ordering.",
         "Go type checker, go/cfg; guards are the code's own comparisons", "DESIGN.md 4/C03"),
 "C04": ("set/reset pairing of emitted mode sequences under implied guards (emission extractor), must-precede ordering over the CFG of Close/Suspend/Resume/New",
         "Decides that every mode-setting sequence has a resetting sequence on the exit path under a guard implied by the setter's guard, that the exit path is reached and ordered from Close, the signal arm and the panic handler, that Close is idempotent and that Resume replays start-up. Does not decide restoration of values the terminal held before start.",
         "Go type checker, go/cfg; sequence templates evaluated from constants", "DESIGN.md 4/C04"),
 "C05": ("interval abstract interpretation of cursor/margin stores in widgets/term (B-screen domain), channel self-deadlock rule, paired-update rule for resize/RIS, ownership rule for Draw",
         "Decides that every handler re-establishes the cursor/margin invariant it is given, that geometry state is re-established on resize/reset, that event hand-off cannot block its own consumer and that Draw writes only through the host window. Does not decide absence of every index panic inside handlers.",
         "Go type checker, go/cfg; sequence parameters assumed non-negative (separate obligation)", "DESIGN.md 4/C05"),
 "C06": ("default-parameter normalisation dominance (go/cfg), dispatch-table exhaustiveness against the property's vocabulary, argument-shape rule for erase",
         "Decides that zero/omitted parameters are normalised before use in every handler of the vocabulary, that each vocabulary function has a handler and that erase uses the current background. Grid equality with a reference terminal is behavioural and not decided.",
         "Go type checker, go/cfg", "DESIGN.md 4/C06"),
 "C07": ("capability gating of emission sites (dominating guards), query-reply-flag-gate chain over dispatch tables, palette table vs xterm formula, signedness of channel differences, decision-table agreement",
         "Decides that each gated sequence class is emitted only under its capability flag, that replies set the capability they report, that the RGB fallback is total and never yields RGB, that the palette table equals the xterm formula and that channel differences are signed. Does not decide nearest-colour optimality over 2^24 colours.",
         "Go type checker, go/cfg, constant evaluation", "DESIGN.md 4/C07"),
 "C08": ("CFG ordering rules on Parser.run (one EOF, last, then close), ownership-transfer rule on dispatch functions, send/close hazard rule between timer and run contexts",
         "Decides EOF-once-last-then-close on every exit of the run loop, that delivered slices are replaced by fresh storage before reuse, and reports the timer/close hazard. Escape timing itself is real-time behaviour and not decided.",
         "Go type checker, go/cfg", "DESIGN.md 4/C08"),
 "C09": ("table composition: specialsKeys vs published kitty/xterm table, modifier-name and key-name tables String<->MatchString, guard analysis of Matches",
         "Decides that the decode table equals the published protocol table, that every modifier and key name written by String is parsed back by MatchString, that key names are injective, and that every accepting return in Matches is dominated by a modifier equality after lock masks are removed. Does not decide text payload decoding.",
         "reference tables transcribed from the kitty keyboard protocol and xterm ctlseqs", "DESIGN.md 4/C09"),
 "C10": ("lockset / lock-order / blocking-under-lock analysis and goroutine-exit rules over go/ssa with VTA call graph",
         "Decides lock-order acyclicity, absence of blocking operations under the main mutexes, guarded-by consistency of shared fields against a confirmed table, and exit arms of library goroutines. Does not decide delivery order or liveness in general.",
         "x/tools go/ssa + VTA call graph; no pointer analysis", "DESIGN.md 4/C10"),
 "C11": ("ownership (sole writers of screen.buf), guard dominance with strictness, argument-shape and sole-caller rules: an inductive clipping argument whose every obligation is discharged from the source",
         "Decides the clipping clause completely: only screen.setCell/setStyle write the buffer, only under 0<=col<cols and 0<=row<rows; Window.SetCell/SetStyle delegate only under their own four-sided strict guard with offsets added exactly once; helpers reach the screen only through them. Does not decide reading order, cluster integrity or wrap positions of the text helpers.",
         "Go type checker, go/cfg; unexported type so the package is the universe", "DESIGN.md 4/C11"),
 "C12": ("vocabulary inclusion: renderer emission templates vs emulator dispatch tables; sibling agreement of decset/decrst/decrqm tables; reply templates vs handleSequence tables",
         "Decides that every sequence form the renderer can emit under the emulator's capability set has a handler in the emulator, that mode tables agree, and that the emulator's replies are understood as what it implements. Does not decide cell-for-cell equality.",
         "Go type checker, constant evaluation", "DESIGN.md 4/C12"),
 "C13": ("table composition decode(encode(k)) over the emulator key tables and the root decode tables; mode-guard dominance for paste and mouse writes",
         "Decides that every table-driven key encoding decodes back to the same key and modifiers, that the SGR mouse format is the inverse of the parser, and that paste/mouse bytes are written only under their mode guards. Does not decide printable-key chords built in code.",
         "Go type checker, constant evaluation", "DESIGN.md 4/C13"),
 "C14": ("bound-domain abstract interpretation (<= ctx.Max) of returned surfaces, unsigned-arithmetic width and strict-guard rules on surface addressing, ordering rule in Surface.render",
         "Decides that built-in widgets return surfaces bounded by the constraint in the bound domain, that surface addressing cannot wrap and is strictly guarded, and that render sorts and clips children. Does not decide absence of panics in general.",
         "Go type checker, go/cfg", "DESIGN.md 4/C14"),
 "C15": ("CFG ordering rules for capture/target/bubble, exhaustiveness of the command interpreter, ownership of the hover ledger",
         "Decides phase order and early-out after consumption, that every command type is interpreted, focus-out before focus-in exactly once, and that enter/leave are sent only by the ledger owner. Does not decide routing over arbitrary trees.",
         "Go type checker, go/cfg", "DESIGN.md 4/C15"),
 "C16": ("path enumeration over the wrap scanners' loop body with resource accounting; sibling agreement plain vs rich",
         "Decides that on every path of both scanners each segment part reaches exactly one of token/rest in order and that a hard break ends the line. Width bound and termination depend on run-time values and are not decided.",
         "Go type checker, go/cfg", "DESIGN.md 4/C16"),
 "C17": ("paired-update rule (Value with cached count), post-dominating clamp rule for cursor stores, callback must-pass-through rule",
         "Decides that every mutation of the text keeps the cached grapheme count coherent, that cursor stores are clamped, that mutating key paths reach the change callback, and that the scroll loop has a size-independent exit. Does not decide equality with an ideal editor.",
         "Go type checker, go/cfg", "DESIGN.md 4/C17"),
 "C18": ("dispatch-table extraction of every SGR consumer and template extraction of every producer; coverage and sibling agreement; length-guard analysis of consumers",
         "Decides that every SGR form a producer emits has a case with the inverse effect in every consumer, that the encoders agree, and that consumers never index past a truncated parameter list. Does not decide grapheme round-trip.",
         "Go type checker, constant evaluation, go/cfg", "DESIGN.md 4/C18"),
 "C19": ("sign/interval abstract interpretation of selection index stores, must-flush rule in pager.Layout, unsigned-subtraction guard rule",
         "Decides that selection indices stay non-negative, that the pager flushes its pending last line, that offsets are clamped before use and that unsigned differences are guarded. Does not decide visibility after draw.",
         "Go type checker, go/cfg", "DESIGN.md 4/C19"),
 "C20": ("reaching-definition rule on resizeImage, field-coverage rule on samePlacement, ownership rule for image drawing, ordering rule for delete-on-refresh",
         "Decides that scaled dimensions reach the destination on every non-fitting path, that placement identity compares every field, that images draw only through the window and that refresh deletes placements before re-adding. Does not decide aspect or pixel values.",
         "Go type checker, go/cfg", "DESIGN.md 4/C20"),
}

def main():
    try:
        out = subprocess.run([os.path.join(HERE, "bin/vxcheck"), "-list"], capture_output=True, text=True, check=True).stdout.split()
    except Exception as e:
        print("cannot list registered checks:", e); sys.exit(1)
    reg = set(out)
    checks, na = [], []
    for pid in sorted(P):
        tech, text, note, ref = P[pid]
        # the clause lists actually implemented are taken from the check's own evidence (written on every run)
        try:
            ev = json.load(open(os.path.join(HERE, "evidence", pid + ".json")))
            ex = ev["coverage"]["explanation"]
            dec = ex.split("DECIDED clauses: ", 1)[1].split(". NOT DECIDED", 1)[0]
            nd = ex.split("NOT DECIDED (behavioural residue, not claimed): ", 1)[1].split(". An obligation is", 1)[0]
            text = ("Static analysis; decides these structural necessary conditions of the property on every path / for every table entry: "
                    + dec + ". NOT decided (not claimed): " + nd + ". Level 'other': named clauses, not the behavioural property as a whole.")
            if len(text) > 6000:
                text = text[:6000] + " …"
        except Exception:
            pass
        if pid in reg:
            checks.append({
                "property_id": pid,
                "quick_cmd": "./run.sh quick %s" % pid,
                "thorough_cmd": "./run.sh thorough %s" % pid,
                "evidence_file": "/verif/evidence/%s.json" % pid,
                "replay_cmd_template": "./run.sh replay {path}",
                "engine": "vxcheck",
                "level_claimed": {"category": "other", "text": text, "design_ref": ref},
                "level_note": note + "; static analysis of /repo's current source (go/packages type-checked AST, go/cfg, go/ssa); no code of /repo is executed",
                "technique": "static analysis: " + tech,
            })
        else:
            na.append({"property_id": pid, "reason": "no static check is registered for this property in the committed checker yet (see DESIGN.md section 4 for the planned clauses); it is not claimed rather than claimed through a different technique"})
    m = {
        "version": 1,
        "setup_cmd": "./run.sh build",
        "hooks": {"guard": "verif", "enable": "none needed: static analysis reads /repo's source; no hooks or instrumentation exist", "baseline_off_cmd": "cd /repo && go test -vet=off -count=1 ./...", "source_commits": [], "add_only": True},
        "engines": [{"name": "vxcheck", "path": "/verif/checker", "serves_properties": sorted(reg), "kind_free_text": "repository-specific static analyser (go/packages + go/types + go/cfg + go/ssa, x/tools v0.29.0): obligations = rule instances over the current source"}],
        "checks": checks,
        "not_applicable": na,
        "notes": "All checks are static analysis (level 'other': named structural clauses that are necessary conditions of each property; see DESIGN.md). known_findings.json lists genuine defects recorded or fixed.",
    }
    json.dump(m, open(os.path.join(HERE, "MANIFEST.json"), "w"), indent=1)
    print("MANIFEST.json: %d checks, %d not_applicable" % (len(checks), len(na)))

if __name__ == "__main__":
    main()
